#!/bin/sh
# Build the verifier offline from files on disk.
set -e
cd "$(dirname "$0")/tool"
export GOFLAGS=-mod=mod GOPROXY=off
cp /repo/go.sum . 2>/dev/null || true
mkdir -p ../bin
go build -o ../bin/gvc .
echo "gvc built"
