package main

import "golang.org/x/tools/go/ssa"

// paramPhiTerm: the havocked loop-head value of a parameter that the function re-assigns in a
// loop (header phi whose entry operand is the parameter), preferring the outermost loop.
func (vc *VC) paramPhiTerm(p *ssa.Parameter) Term {
	var best *LoopInfo
	var bestT Term
	for _, li := range vc.loops {
		for phi, v := range li.havocPhi {
			for i, e := range phi.Edges {
				if e == ssa.Value(p) && !vc.isBackEdge(li.header.Preds[i], li.header) && v.t != "" {
					if best == nil || len(li.blocks) > len(best.blocks) {
						best, bestT = li, v.t
					}
				}
			}
		}
	}
	return bestT
}
