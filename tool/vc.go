package main

// VC generation for one function: forward symbolic execution of the loop-cut SSA
// control-flow graph into passive form (definitions + guarded assumptions + named
// obligations). See DESIGN.md §3.4.

import (
	"os"
	"runtime/debug"
	"fmt"
	"go/token"
	"go/types"
	"sort"
	"strings"

	"golang.org/x/tools/go/ssa"
)

type Event struct {
	Oblig     bool
	Name      string
	Class     string // safe:index, safe:slice, safe:nil, safe:div, safe:assert, safe:panic, ensures, invariant-entry, invariant-step, decreases, call-pre, frame, lemma
	Guard     Term
	Cond      Term
	Pos       token.Pos
	Construct string
	Quant     bool // condition or context contains quantifiers
	RetVals   []Val
}

type State struct {
	heaps  map[string]Term
	defers []*deferRec
}

func (s *State) clone() *State {
	n := &State{heaps: make(map[string]Term, len(s.heaps))}
	for k, v := range s.heaps {
		n.heaps[k] = v
	}
	n.defers = append([]*deferRec(nil), s.defers...)
	return n
}

type LVal struct {
	kind   int
	typ    types.Type // type of the object designated
	ref    Term
	idx    Term
	parent *LVal
	field  int
	heap   string
	nonnil bool
	global *ssa.Global
}

const (
	lvHeap    = iota // Heap_T[ref]
	lvMemArr         // whole array at Mem_E[ref] (pointer to array)
	lvElem           // Mem_E[ref][idx]
	lvField          // field of parent
	lvArrElem        // parent (array value) [idx]
	lvGlobal
	lvLocal // a local variable whose address does not escape (ssa.Alloc with Heap == false): its own state variable
)

type Val struct {
	t     Term
	tuple []Val
	lv    *LVal
	typ   types.Type
}

type LoopInfo struct {
	header  *ssa.BasicBlock
	blocks  map[*ssa.BasicBlock]bool
	latches []*ssa.BasicBlock
	ordinal int       // source-order number (from marker), 0 if unknown
	marker  *ssa.Call // marker call
	parent  *LoopInfo
	// computed at header processing
	havocState *State
	havocPhi   map[*ssa.Phi]Val
	entryAlloc Term
	variant0   Term
	frames     []*loopFrame
}

type VC struct {
	P        *Program
	fi       *FuncInfo
	fn       *ssa.Function
	S        *Sorts
	decls    []string
	declSet  map[string]bool
	heapSort map[string]string
	events   []*Event
	vals     map[ssa.Value]Val
	reach    map[*ssa.BasicBlock]Term
	out      map[*ssa.BasicBlock]*State
	edge     map[[2]int]Term
	fresh    int
	strConst map[string]Term
	loops    map[*ssa.BasicBlock]*LoopInfo
	loopOf   map[*ssa.BasicBlock]*LoopInfo // innermost loop containing block
	assumed  map[string]bool
	unsupp   []string
	entry    *State
	params   map[string]Val
	counts   map[string]int
	implPred map[string]*types.Interface
	curPos   token.Pos
	nosafety bool
	recvs    []recvAxiom
	ufs      map[string]string
	oldState *State // for contract translation
	retVals  []Val
	closure  map[ssa.Value]*ssa.MakeClosure
	nonnil   map[ssa.Value]bool
	quantCtx bool
	usedCallees map[*FuncInfo]bool
	noDefine    bool
	pendingWF   map[string]Term
	lastEv      *Event
	havocked    map[string][]string // heap name -> havoc versions in creation order
	// function literals, defer, panic paths (inline.go, panicpath.go)
	inline        *inlineFrame
	inlineDepth   int
	deferDepth    int
	inRunDefers   bool
	baseReach     Term
	startBlock    *ssa.BasicBlock
	reachOverride Term
	panicMode     bool
	panicExits    []panicExit
	callGhosts    map[string]*callGhost
	unreach       map[*ssa.MakeSlice]bool
	heapProbe     map[string]bool
	rangeQs       []rangeQ
	mapRangeCache map[*ssa.Range]bool
	specHeaps     map[*types.Func][]string
	specProbing   map[*types.Func]bool
}

type recvAxiom struct{}

func newVC(P *Program, fi *FuncInfo, fn *ssa.Function) *VC {
	return &VC{P: P, fi: fi, fn: fn, S: newSorts(), declSet: map[string]bool{}, heapSort: map[string]string{},
		vals: map[ssa.Value]Val{}, reach: map[*ssa.BasicBlock]Term{}, out: map[*ssa.BasicBlock]*State{},
		edge: map[[2]int]Term{}, strConst: map[string]Term{}, loops: map[*ssa.BasicBlock]*LoopInfo{},
		loopOf: map[*ssa.BasicBlock]*LoopInfo{}, assumed: map[string]bool{}, params: map[string]Val{},
		counts: map[string]int{}, implPred: map[string]*types.Interface{}, ufs: map[string]string{},
		closure: map[ssa.Value]*ssa.MakeClosure{}, nonnil: map[ssa.Value]bool{}, usedCallees: map[*FuncInfo]bool{}}
}

// maxLen: no Go object is larger than the 48-bit address space (runtime maxAlloc on linux/amd64);
// lengths and capacities are assumed to be at most 2^48 (listed as a standing assumption).
const maxLen = "281474976710656"

type unsupported struct{ msg string }

func (vc *VC) fail(format string, args ...interface{}) {
	if os.Getenv("GVC_STACK") != "" {
		debug.PrintStack()
	}
	panic(unsupported{fmt.Sprintf(format, args...)})
}

func (vc *VC) assume(s string) { vc.assumed[s] = true }

func (vc *VC) declare(name, sort string) Term {
	if !vc.declSet[name] {
		vc.declSet[name] = true
		vc.decls = append(vc.decls, fmt.Sprintf("(declare-const %s %s)", name, sort))
	}
	return name
}

func (vc *VC) declareFun(name string, args []string, ret string) string {
	if !vc.declSet[name] {
		vc.declSet[name] = true
		vc.decls = append(vc.decls, fmt.Sprintf("(declare-fun %s (%s) %s)", name, strings.Join(args, " "), ret))
	}
	return name
}

func (vc *VC) freshName(base string) string {
	vc.fresh++
	return sym(fmt.Sprintf("%s!%d", base, vc.fresh))
}

func (vc *VC) freshConst(base, sort string) Term {
	return vc.declare(vc.freshName(base), sort)
}

// define introduces a named constant equal to term (definitional, total).
func (vc *VC) define(base, sort string, t Term) Term {
	if isAtom(t) || vc.noDefine {
		return t // under a binder a named constant would capture the bound variable
	}
	n := vc.freshConst(base, sort)
	vc.addAssume("true", eq(n, t))
	return n
}

func isAtom(t Term) bool {
	return !strings.HasPrefix(t, "(") || (strings.HasPrefix(t, "(- ") && !strings.Contains(t[3:], " "))
}

func (vc *VC) addAssume(guard, cond Term) {
	if cond == "true" {
		return
	}
	vc.events = append(vc.events, &Event{Guard: guard, Cond: cond})
}

func (vc *VC) oblige(class, detail string, guard, cond Term, pos token.Pos, construct string) {
	if cond == "true" && detail != "propagates" {
		return
	}
	if strings.HasPrefix(class, "safe:") && vc.nosafety {
		return
	}
	vc.counts[class]++
	fname := vc.fn.String()
	if vc.fi != nil {
		fname = vc.fi.qname()
	}
	name := fmt.Sprintf("%s#%s#%d", fname, class, vc.counts[class])
	if detail != "" {
		name = fmt.Sprintf("%s#%s:%s#%d", fname, class, detail, vc.counts[class])
	}
	if !pos.IsValid() {
		pos = vc.curPos
	}
	goal := cond
	if class == "invariant-step" || class == "invariant-entry" || class == "ensures" {
		goal = vc.skolemizeGoal(guard, cond)
	}
	vc.lastEv = &Event{Oblig: true, Name: name, Class: class, Guard: guard, Cond: goal, Pos: pos, Construct: construct, Quant: vc.quantCtx}
	vc.events = append(vc.events, vc.lastEv)
	// after the check, execution continues only if it held (a wrapped integer result does not stop
	// the program, so an overflow obligation constrains nothing afterwards)
	// (obligations checked where a path ends -- at a return or at a cut back edge -- constrain
	// nothing afterwards either. By default they are still assumed: their ground terms seed quantifier
	// instantiation in later queries, and some proofs lean on that. A function marked `lean` drops
	// them, which keeps heavily quantified postconditions out of unrelated queries.)
	endsPath := vc.fi != nil && vc.fi.fc.Lean && vc.inlineDepth == 0 && (class == "ensures" || class == "frame" || class == "invariant-step" || class == "loop-frame" || class == "decreases")
	if class != "overflow" && !endsPath {
		vc.events = append(vc.events, &Event{Guard: guard, Cond: cond})
	}
}

// ---------------------------------------------------------------------------
// heap state

func (vc *VC) heapGet(s *State, name, sort string) Term {
	if vc.heapProbe != nil {
		vc.heapProbe[name] = true
	}
	if t, ok := s.heaps[name]; ok {
		return t
	}
	vc.heapSort[name] = sort
	init := sym(name + "@0")
	if !vc.declSet[init] {
		vc.declare(init, sort)
		if name != "alloc" {
			if f := vc.heapWF(name, init, sym("alloc@0")); f != "" {
				vc.declare(sym("alloc@0"), "Int")
				vc.heapSort["alloc"] = "Int"
				vc.quantCtx = true
				vc.addAssume("true", f)
			}
		}
	}
	return init
}

func (vc *VC) heapSet(s *State, name, sort string, t Term) {
	vc.heapSort[name] = sort
	s.heaps[name] = vc.define(name, sort, t)
}

func (vc *VC) memName(elem types.Type) (string, string) {
	es := vc.S.sortOf(elem)
	memElemTypes["Mem_"+vc.S.typeKey(elem.Underlying())] = elem
	return "Mem_" + vc.S.typeKey(elem.Underlying()),"(Array Int (Array Int " + es + "))"
}
func (vc *VC) heapName(t types.Type) (string, string) {
	heapElemTypes["Heap_"+vc.S.typeKey(t)] = t
	return "Heap_" + vc.S.typeKey(t), "(Array Int " + vc.S.sortOf(t) + ")"
}
func (vc *VC) mapHeapName(m *types.Map) (string, string, *mapSort) {
	ms := vc.S.mapOf(m.Key(), m.Elem())
	return "MapHeap_" + strings.Trim(ms.name, "|")[7:], "(Array Int " + ms.name + ")", ms
}

func (vc *VC) allocGet(s *State) Term { return vc.heapGet(s, "alloc", "Int") }

func (vc *VC) freshRef(s *State, base string) Term {
	a := vc.allocGet(s)
	r := vc.define(base, "Int", a)
	vc.heapSet(s, "alloc", "Int", app("+", a, "1"))
	return r
}

// havocHeap replaces a heap by a fresh unconstrained version.
func (vc *VC) havocHeap(s *State, name string) {
	sort, ok := vc.heapSort[name]
	if !ok {
		return
	}
	if name == "alloc" {
		old := vc.allocGet(s)
		n := vc.freshConst("alloc", "Int")
		vc.addAssume("true", app(">=", n, old))
		s.heaps[name] = n
		return
	}
	s.heaps[name] = vc.freshConst(name, sort)
	if vc.pendingWF == nil {
		vc.pendingWF = map[string]Term{}
	}
	vc.pendingWF[name] = s.heaps[name]
	if vc.havocked == nil {
		vc.havocked = map[string][]string{}
	}
	vc.havocked[name] = append(vc.havocked[name], s.heaps[name])
}

// ---------------------------------------------------------------------------
// lvalues

func (vc *VC) rootLV(ptrT types.Type, ref Term, nonnil bool) *LVal {
	pt, ok := ptrT.Underlying().(*types.Pointer)
	if !ok {
		vc.fail("rootLV: not a pointer: %s", ptrT)
	}
	el := pt.Elem()
	if at, ok := el.Underlying().(*types.Array); ok {
		n, _ := vc.memName(at.Elem())
		return &LVal{kind: lvMemArr, typ: el, ref: ref, heap: n, nonnil: nonnil}
	}
	n, _ := vc.heapName(el)
	return &LVal{kind: lvHeap, typ: el, ref: ref, heap: n, nonnil: nonnil}
}

func (vc *VC) lvOf(v Val) *LVal {
	if v.lv != nil {
		return v.lv
	}
	return vc.rootLV(v.typ, v.t, false)
}

func (vc *VC) load(s *State, lv *LVal) Term {
	switch lv.kind {
	case lvHeap:
		_, sort := vc.heapName(lv.typ)
		return app("select", vc.heapGet(s, lv.heap, sort), lv.ref)
	case lvMemArr:
		at := lv.typ.Underlying().(*types.Array)
		_, sort := vc.memName(at.Elem())
		return app("select", vc.heapGet(s, lv.heap, sort), lv.ref)
	case lvElem:
		_, sort := vc.memName(lv.typ)
		return app("select", app("select", vc.heapGet(s, lv.heap, sort), lv.ref), lv.idx)
	case lvField:
		ss := vc.S.structOf(lv.parent.typ)
		return app(ss.fields[lv.field], vc.load(s, lv.parent))
	case lvArrElem:
		return app("select", vc.load(s, lv.parent), lv.idx)
	case lvGlobal:
		return vc.globalGet(s, lv.global)
	case lvLocal:
		return vc.heapGet(s, lv.heap, vc.S.sortOf(lv.typ))
	}
	panic("load")
}

func (vc *VC) store(s *State, lv *LVal, v Term) {
	switch lv.kind {
	case lvHeap:
		_, sort := vc.heapName(lv.typ)
		h := vc.heapGet(s, lv.heap, sort)
		vc.heapSet(s, lv.heap, sort, app("store", h, lv.ref, v))
	case lvMemArr:
		at := lv.typ.Underlying().(*types.Array)
		_, sort := vc.memName(at.Elem())
		h := vc.heapGet(s, lv.heap, sort)
		vc.heapSet(s, lv.heap, sort, app("store", h, lv.ref, v))
	case lvElem:
		_, sort := vc.memName(lv.typ)
		h := vc.heapGet(s, lv.heap, sort)
		vc.heapSet(s, lv.heap, sort, app("store", h, lv.ref, app("store", app("select", h, lv.ref), lv.idx, v)))
	case lvField:
		ss := vc.S.structOf(lv.parent.typ)
		old := vc.load(s, lv.parent)
		old = vc.define("obj", ss.name, old)
		var args []Term
		for i, f := range ss.fields {
			if i == lv.field {
				args = append(args, v)
			} else {
				args = append(args, app(f, old))
			}
		}
		vc.store(s, lv.parent, app(ss.ctor, args...))
	case lvArrElem:
		old := vc.load(s, lv.parent)
		vc.store(s, lv.parent, app("store", old, lv.idx, v))
	case lvGlobal:
		vc.globalSet(s, lv.global, v)
	case lvLocal:
		vc.heapSet(s, lv.heap, vc.S.sortOf(lv.typ), v)
	}
}

// rootHeapOf returns the heap name an lvalue lives in.
func (lv *LVal) rootHeap() string {
	for lv.parent != nil {
		lv = lv.parent
	}
	if lv.kind == lvGlobal {
		return "G_" + lv.global.String()
	}
	return lv.heap
}

func (lv *LVal) root() *LVal {
	for lv.parent != nil {
		lv = lv.parent
	}
	return lv
}

func (vc *VC) globalName(g *ssa.Global) string {
	return "G_" + g.Pkg.Pkg.Name() + "." + g.Name()
}

func (vc *VC) globalGet(s *State, g *ssa.Global) Term {
	t := g.Type().(*types.Pointer).Elem()
	name := vc.globalName(g)
	if vc.P.globalConst(g) {
		first := !vc.declSet[sym(name)]
		c := vc.declare(sym(name), vc.S.sortOf(t))
		if first && !strings.HasPrefix(g.Pkg.Pkg.Path(), modPath) && types.Identical(t, types.Universe.Lookup("error").Type()) {
			vc.addAssume("true", not(app("(_ is dnil)", c)))
			vc.assume("error sentinel of an external package is non-nil: " + g.Pkg.Pkg.Name() + "." + g.Name())
		}
		if first && isInterface(t) {
			// a never-reassigned interface variable initialised by a composite literal keeps its dynamic type
			if dt, ok := vc.P.globalInitDynType(g); ok {
				vc.addAssume("true", app("(_ is "+vc.S.boxOf(dt).ctor+")", c))
				vc.assume("package variable " + g.Pkg.Pkg.Name() + "." + g.Name() + " is never reassigned (checked by SSA scan) and holds the value of its composite-literal initialiser (dynamic type " + dt.String() + ")")
			}
		}
		if first {
			// a never-reassigned package variable initialised by a call F(constants) of a function under
			// contract holds a value that satisfies F's postconditions (when F's preconditions hold)
			if fo, cargs, info, ok := vc.P.globalInitCall(g); ok {
				if fn := vc.P.prog.FuncValue(fo); fn != nil {
					if fi := vc.P.contractFor(fn); fi != nil && fi.missing == "" && len(fi.results) == 1 && len(fi.params) == len(cargs) {
						ex := &exprTr{vc: vc, info: info}
						env := map[string]Val{}
						for i, a := range cargs {
							env[fi.params[i]] = ex.constVal(fi.ptypes[i], info.Types[a].Value)
						}
						renv := map[string]Val{fi.results[0]: {t: c, typ: t}}
						var pres, posts []Term
						for _, cl := range fi.fc.Requires {
							pres = append(pres, vc.clauseTerm(fi, cl, env, nil, s, s))
						}
						for _, cl := range fi.fc.Ensures {
							posts = append(posts, vc.clauseTerm(fi, cl, env, renv, s, s))
						}
						if len(posts) > 0 {
							vc.usedCallees[fi] = true
							vc.addAssume("true", implies(and(pres...), and(posts...)))
							vc.assume("package variable " + g.Pkg.Pkg.Name() + "." + g.Name() + " is never reassigned (checked by SSA scan) and holds the result of its initialiser " + fi.qname() + "(constants), which satisfies that function's contract")
						}
					}
				}
			}
		}
		if first {
			// a never-reassigned package variable with a constant initialiser keeps that value
			if v, ok := vc.P.globalInit(g); ok {
				if _, _, isInt := intInfo(t); isInt || isBool(t) {
					ex := &exprTr{vc: vc}
					vc.addAssume("true", eq(c, ex.constVal(t, v).t))
					vc.assume("package variable " + g.Pkg.Pkg.Name() + "." + g.Name() + " is never reassigned (checked by SSA scan) and keeps its constant initial value")
				}
			}
		}
		return c
	}
	return vc.heapGet(s, name, vc.S.sortOf(t))
}

func (vc *VC) globalSet(s *State, g *ssa.Global, v Term) {
	t := g.Type().(*types.Pointer).Elem()
	vc.heapSet(s, vc.globalName(g), vc.S.sortOf(t), v)
}

// ---------------------------------------------------------------------------
// typing facts for values introduced without a definition

func (vc *VC) typeFacts(s *State, t types.Type, e Term, depth int) Term {
	if isVerifInt(t) {
		return "true"
	}
	if n, ok := types.Unalias(t).(*types.Named); ok && n.Obj().Name() == "verifBytes" {
		return "true" // an abstract byte sequence (sort Bytes), not the Go struct that stands for it in the prelude
	}
	switch u := t.Underlying().(type) {
	case *types.Basic:
		if u.Info()&types.IsInteger != 0 {
			return inRange(t, e)
		}
		if u.Info()&types.IsString != 0 {
			return and(app("<=", "0", strLen(e)), app("<=", strLen(e), maxLen), app("<=", "0", app("st.off", e)))
		}
	case *types.Pointer, *types.Map:
		if s == nil {
			return app("<=", "0", e)
		}
		return and(app("<=", "0", e), app("<", e, vc.allocGet(s)))
	case *types.Slice:
		f := and(app("<=", "0", slOff(e)), app("<=", "0", slLen(e)), app("<=", slLen(e), slCap(e)), app("<=", slCap(e), maxLen), app("<=", "0", slRef(e)),
			implies(eq(slRef(e), "0"), eq(slCap(e), "0")))
		if s != nil {
			f = and(f, app("<", slRef(e), vc.allocGet(s)))
		}
		return f
	case *types.Interface:
		// a value of a non-empty interface type is nil or of a dynamic type that implements it
		if u.NumMethods() > 0 && !vc.noDefine {
			if f := vc.closedFact(t, e); f != "" {
				return f
			}
			return or(app("(_ is dnil)", e), app(vc.implFun(t), e))
		}
	case *types.Struct:
		if depth > 3 {
			return "true"
		}
		ss := vc.S.structOf(t)
		var fs []Term
		for i := 0; i < u.NumFields(); i++ {
			fs = append(fs, vc.typeFacts(s, u.Field(i).Type(), app(ss.fields[i], e), depth+1))
		}
		return and(fs...)
	}
	return "true"
}

// freshTyped makes an unconstrained value of Go type t with its typing facts assumed.
func (vc *VC) freshTyped(s *State, base string, t types.Type, guard Term) Val {
	if tup, ok := t.(*types.Tuple); ok {
		var vs []Val
		for i := 0; i < tup.Len(); i++ {
			vs = append(vs, vc.freshTyped(s, fmt.Sprintf("%s.%d", base, i), tup.At(i).Type(), guard))
		}
		return Val{tuple: vs, typ: t}
	}
	c := vc.freshConst(base, vc.S.sortOf(t))
	vc.addAssume(guard, vc.typeFacts(s, t, c, 0))
	return Val{t: c, typ: t}
}

// ---------------------------------------------------------------------------
// loops

func (vc *VC) findLoops() {
	fn := vc.fn
	// back edges: b -> h where h dominates b
	for _, b := range fn.Blocks {
		for _, h := range b.Succs {
			if h.Dominates(b) {
				li := vc.loops[h]
				if li == nil {
					li = &LoopInfo{header: h, blocks: map[*ssa.BasicBlock]bool{h: true}}
					vc.loops[h] = li
				}
				li.latches = append(li.latches, b)
				// natural loop: all blocks that can reach b without passing through h
				stack := []*ssa.BasicBlock{b}
				for len(stack) > 0 {
					x := stack[len(stack)-1]
					stack = stack[:len(stack)-1]
					if li.blocks[x] {
						continue
					}
					li.blocks[x] = true
					for _, p := range x.Preds {
						stack = append(stack, p)
					}
				}
			}
		}
	}
	// innermost loop per block; parent links
	var all []*LoopInfo
	for _, li := range vc.loops {
		all = append(all, li)
	}
	sort.Slice(all, func(i, j int) bool {
		if len(all[i].blocks) != len(all[j].blocks) {
			return len(all[i].blocks) < len(all[j].blocks)
		}
		return all[i].header.Index < all[j].header.Index
	})
	for _, li := range all {
		for b := range li.blocks {
			if vc.loopOf[b] == nil {
				vc.loopOf[b] = li
			}
		}
	}
	for _, li := range all {
		for _, lj := range all {
			if lj != li && lj.blocks[li.header] && len(lj.blocks) > len(li.blocks) {
				if li.parent == nil || len(lj.blocks) < len(li.parent.blocks) {
					li.parent = lj
				}
			}
		}
	}
	// markers
	for _, b := range fn.Blocks {
		for _, in := range b.Instrs {
			c, ok := in.(*ssa.Call)
			if !ok {
				continue
			}
			if k, ok := markerOrdinal(c); ok {
				li := vc.loopOf[b]
				// the marker sits in the loop body: the innermost loop containing this block
				if li == nil {
					continue // loop whose body never loops back (e.g. always returns/breaks)
				}
				if li.marker == nil {
					li.marker = c
					li.ordinal = k
				}
			}
		}
	}
}

func markerOrdinal(c *ssa.Call) (int, bool) {
	f := c.Call.StaticCallee()
	if f == nil || !strings.HasPrefix(f.Name(), "verif_mark") {
		return 0, false
	}
	if k, ok := c.Call.Args[0].(*ssa.Const); ok {
		return int(k.Int64()), true
	}
	return 0, false
}

// modifiedIn computes the heap names possibly written inside a loop (syntactic).
func (vc *VC) modifiedIn(li *LoopInfo) map[string]bool {
	mod := map[string]bool{}
	for b := range li.blocks {
		for _, in := range b.Instrs {
			vc.instrModifies(in, mod)
		}
	}
	return mod
}

func (vc *VC) addrHeap(a ssa.Value, mod map[string]bool) {
	switch x := a.(type) {
	case *ssa.FieldAddr:
		vc.addrHeap(x.X, mod)
	case *ssa.IndexAddr:
		switch t := x.X.Type().Underlying().(type) {
		case *types.Slice:
			n, _ := vc.memName(t.Elem())
			mod[n] = true
		case *types.Pointer:
			vc.addrHeap(x.X, mod)
		}
	case *ssa.Global:
		mod[vc.globalName(x)] = true
	case *ssa.Alloc:
		if vc.allocIsLocal(x) && (!x.Heap || vc.capturedReadOnly(x)) {
			mod[vc.localName(x)] = true
			return
		}
		vc.addrHeapByType(a, mod)
	default:
		vc.addrHeapByType(a, mod)
	}
}

func (vc *VC) addrHeapByType(a ssa.Value, mod map[string]bool) {
	{
		if pt, ok := a.Type().Underlying().(*types.Pointer); ok {
			if at, ok := pt.Elem().Underlying().(*types.Array); ok {
				n, _ := vc.memName(at.Elem())
				mod[n] = true
			} else {
				n, _ := vc.heapName(pt.Elem())
				mod[n] = true
			}
		}
	}
}

func (vc *VC) instrModifies(in ssa.Instruction, mod map[string]bool) {
	switch x := in.(type) {
	case *ssa.Store:
		vc.addrHeap(x.Addr, mod)
	case *ssa.MapUpdate:
		if mt, ok := x.Map.Type().Underlying().(*types.Map); ok {
			n, _, _ := vc.mapHeapName(mt)
			mod[n] = true
		}
	case *ssa.Alloc:
		mod["alloc"] = true
		vc.addrHeap(x, mod)
	case *ssa.MakeSlice:
		mod["alloc"] = true
		n, _ := vc.memName(x.Type().Underlying().(*types.Slice).Elem())
		mod[n] = true
	case *ssa.MakeMap:
		mod["alloc"] = true
		n, _, _ := vc.mapHeapName(x.Type().Underlying().(*types.Map))
		mod[n] = true
	case *ssa.MakeClosure, *ssa.MakeChan:
		mod["alloc"] = true
	case *ssa.Convert:
		if _, ok := x.Type().Underlying().(*types.Slice); ok {
			mod["alloc"] = true
			n, _ := vc.memName(x.Type().Underlying().(*types.Slice).Elem())
			mod[n] = true
		}
	case *ssa.Range:
		mod["iter@"+x.Name()] = true
		if _, ok := vc.heapSort["iter@seen@"+x.Name()]; ok {
			mod["iter@seen@"+x.Name()] = true
		}
	case *ssa.Next:
		if r, ok := x.Iter.(*ssa.Range); ok {
			mod["iter@"+r.Name()] = true
			if _, ok := vc.heapSort["iter@seen@"+r.Name()]; ok {
				mod["iter@seen@"+r.Name()] = true
			}
		}
	case ssa.CallInstruction:
		vc.callModifies(x.Common(), mod)
	}
}

// ---------------------------------------------------------------------------

func (vc *VC) posStr(p token.Pos) string {
	if !p.IsValid() {
		return ""
	}
	ps := vc.P.fset.Position(p)
	f := ps.Filename
	if strings.HasPrefix(f, repoDir+"/") {
		f = f[len(repoDir)+1:]
	}
	return fmt.Sprintf("%s:%d", f, ps.Line)
}

// sortedKeys: map keys in a fixed order (the order in which heaps are havocked, compared and framed decides the
// order of declarations and assertions in the SMT script; a fixed order makes every run produce the same script).
func sortedKeys[V any](m map[string]V) []string {
	ks := make([]string, 0, len(m))
	for k := range m {
		ks = append(ks, k)
	}
	sort.Strings(ks)
	return ks
}
