package main

// SMT-LIB term construction and the Go-type -> SMT-sort mapping.
//
// Encoding (DESIGN.md §3.5):
//   integers  Int with explicit wrap-around per Go width
//   bool      Bool
//   string    Str  = mkstr(base: Array Int Int, off, len)
//   slice     Slice = mkslice(ref, off, len, cap); elements in |Mem_<T>| : Array Int (Array Int T)
//   *T        Int (reference); objects in |Heap_<T>| : Array Int T     (arrays: in |Mem_<E>|)
//   struct    datatype per struct type
//   interface Dyn  = dnil | box_<T>(payload) | dother(tid, val)
//   map       Int (reference) into |MapHeap_<K,V>| : Array Int MapVal_<K,V>
//   float     F64 (uninterpreted), func/chan Int (opaque)

import (
	"fmt"
	"regexp"
	"go/types"
	"math/big"
	"sort"
	"strings"
)

type Term = string

func app(f string, args ...Term) Term {
	if len(args) == 0 {
		return f
	}
	return "(" + f + " " + strings.Join(args, " ") + ")"
}
func and(ts ...Term) Term {
	var xs []Term
	for _, t := range ts {
		if t == "true" || t == "" {
			continue
		}
		if t == "false" {
			return "false"
		}
		xs = append(xs, t)
	}
	switch len(xs) {
	case 0:
		return "true"
	case 1:
		return xs[0]
	}
	return app("and", xs...)
}
func or(ts ...Term) Term {
	var xs []Term
	for _, t := range ts {
		if t == "false" || t == "" {
			continue
		}
		if t == "true" {
			return "true"
		}
		xs = append(xs, t)
	}
	switch len(xs) {
	case 0:
		return "false"
	case 1:
		return xs[0]
	}
	return app("or", xs...)
}
func not(t Term) Term {
	switch t {
	case "true":
		return "false"
	case "false":
		return "true"
	}
	if strings.HasPrefix(t, "(not ") {
		return t[5 : len(t)-1]
	}
	return app("not", t)
}
func implies(a, b Term) Term {
	if a == "true" {
		return b
	}
	if a == "false" || b == "true" {
		return "true"
	}
	return app("=>", a, b)
}
func ite(c, a, b Term) Term {
	if c == "true" {
		return a
	}
	if c == "false" {
		return b
	}
	if a == b {
		return a
	}
	return app("ite", c, a, b)
}
func eq(a, b Term) Term {
	if a == b {
		return "true"
	}
	return app("=", a, b)
}
func num(n int64) Term {
	if n < 0 {
		return "(- " + new(big.Int).Neg(big.NewInt(n)).String() + ")" // -n overflows for MinInt64
	}
	return fmt.Sprintf("%d", n)
}
func bigNum(n *big.Int) Term {
	if n.Sign() < 0 {
		return "(- " + new(big.Int).Neg(n).String() + ")"
	}
	return n.String()
}
func sym(s string) string {
	ok := true
	for _, c := range s {
		if !(c >= 'a' && c <= 'z' || c >= 'A' && c <= 'Z' || c >= '0' && c <= '9' || c == '_' || c == '.' || c == '$' || c == '@' || c == '!') {
			ok = false
			break
		}
	}
	if ok && len(s) > 0 && !(s[0] >= '0' && s[0] <= '9') {
		return s
	}
	// no quoted symbols: testers such as (_ is |box_[]uint8|) are rejected by some solver versions
	var sb strings.Builder
	for _, c := range s {
		switch {
		case c >= 'a' && c <= 'z' || c >= 'A' && c <= 'Z' || c >= '0' && c <= '9' || c == '_' || c == '.' || c == '$' || c == '@' || c == '!':
			sb.WriteRune(c)
		case c == '[':
			sb.WriteString("$L")
		case c == ']':
			sb.WriteString("$R")
		case c == '*':
			sb.WriteString("$P")
		case c == ' ':
			sb.WriteString("$_")
		case c == '{':
			sb.WriteString("$O")
		case c == '}':
			sb.WriteString("$C")
		case c == '/':
			sb.WriteString("$S")
		case c == ',':
			sb.WriteString("$c")
		case c == '(':
			sb.WriteString("$o")
		case c == ')':
			sb.WriteString("$r")
		default:
			fmt.Fprintf(&sb, "$x%x", c)
		}
	}
	out := sb.String()
	if out[0] >= '0' && out[0] <= '9' {
		out = "$" + out
	}
	return out
}

// ---------------------------------------------------------------------------

type structSort struct {
	st     *types.Struct
	name   string // SMT sort name
	ctor   string
	fields []string // accessor names
	gotype types.Type
}

type dynCtor struct {
	typ   types.Type
	key   string
	ctor  string
	acc   string
	psort string
}

type mapSort struct {
	k, v types.Type
	name string // MapVal sort
}

// Sorts is shared by all obligations of one function (one SMT "theory").
type Sorts struct {
	structs  []*structSort
	dyn      map[string]*dynCtor
	dynOrder []string
	maps     []*mapSort
	useF64   bool
	useBytes bool
	qual     types.Qualifier
}

func newSorts() *Sorts {
	return &Sorts{dyn: map[string]*dynCtor{}, qual: func(p *types.Package) string { return p.Path() }}
}

func shortQual(p *types.Package) string { return p.Name() }

func (S *Sorts) typeKey(t types.Type) string {
	s := types.TypeString(types.Unalias(t), shortQual)
	// byte/rune are aliases that print under their own names
	s = byteRe.ReplaceAllString(s, "uint8")
	s = runeRe.ReplaceAllString(s, "int32")
	s = anyRe.ReplaceAllString(s, "interface{}")
	return s
}

func canonType(s string) string {
	s = byteRe.ReplaceAllString(s, "uint8")
	s = runeRe.ReplaceAllString(s, "int32")
	return anyRe.ReplaceAllString(s, "interface{}")
}

var byteRe = regexp.MustCompile(`\bbyte\b`)
var runeRe = regexp.MustCompile(`\brune\b`)
var anyRe = regexp.MustCompile(`\bany\b`)

func intInfo(t types.Type) (bits int, signed bool, ok bool) {
	b, isb := t.Underlying().(*types.Basic)
	if !isb {
		return
	}
	switch b.Kind() {
	case types.Int8:
		return 8, true, true
	case types.Int16:
		return 16, true, true
	case types.Int32:
		return 32, true, true
	case types.Int64, types.Int:
		return 64, true, true
	case types.Uint8:
		return 8, false, true
	case types.Uint16:
		return 16, false, true
	case types.Uint32:
		return 32, false, true
	case types.Uint64, types.Uint, types.Uintptr:
		return 64, false, true
	case types.UntypedInt, types.UntypedRune:
		return 0, true, true
	}
	return
}

func isFloat(t types.Type) bool {
	b, ok := t.Underlying().(*types.Basic)
	return ok && b.Info()&types.IsFloat != 0
}
func isString(t types.Type) bool {
	b, ok := t.Underlying().(*types.Basic)
	return ok && b.Info()&types.IsString != 0
}
func isBool(t types.Type) bool {
	b, ok := t.Underlying().(*types.Basic)
	return ok && b.Info()&types.IsBoolean != 0
}
func isInterface(t types.Type) bool {
	_, ok := t.Underlying().(*types.Interface)
	return ok
}
func isVerifInt(t types.Type) bool {
	n, ok := t.(*types.Named)
	return ok && n.Obj().Name() == "verifInt"
}

func intRange(t types.Type) (lo, hi *big.Int, ok bool) {
	if isVerifInt(t) {
		return nil, nil, false
	}
	bits, signed, isInt := intInfo(t)
	if !isInt || bits == 0 {
		return nil, nil, false
	}
	one := big.NewInt(1)
	if signed {
		hi = new(big.Int).Sub(new(big.Int).Lsh(one, uint(bits-1)), one)
		lo = new(big.Int).Neg(new(big.Int).Lsh(one, uint(bits-1)))
	} else {
		lo = big.NewInt(0)
		hi = new(big.Int).Sub(new(big.Int).Lsh(one, uint(bits)), one)
	}
	return lo, hi, true
}

func (S *Sorts) sortOf(t types.Type) string {
	if n, ok := types.Unalias(t).(*types.Named); ok && n.Obj().Name() == "verifBytes" {
		S.useBytes = true
		return "Bytes"
	}
	switch u := t.Underlying().(type) {
	case *types.Basic:
		switch {
		case u.Info()&types.IsInteger != 0:
			return "Int"
		case u.Info()&types.IsBoolean != 0:
			return "Bool"
		case u.Info()&types.IsString != 0:
			return "Str"
		case u.Info()&types.IsFloat != 0:
			S.useF64 = true
			return "F64"
		case u.Kind() == types.UnsafePointer:
			return "Int"
		case u.Kind() == types.UntypedNil:
			return "Int"
		case u.Info()&types.IsComplex != 0:
			S.useF64 = true
			return "F64"
		}
	case *types.Pointer, *types.Map, *types.Chan, *types.Signature:
		return "Int"
	case *types.Slice:
		return "Slice"
	case *types.Array:
		return "(Array Int " + S.sortOf(u.Elem()) + ")"
	case *types.Struct:
		return S.structOf(t).name
	case *types.Interface:
		return "Dyn"
	case *types.Tuple:
		return "TUPLE"
	case *types.TypeParam:
		return "Dyn"
	}
	panic(fmt.Sprintf("sortOf: unsupported type %s", t))
}

func (S *Sorts) structOf(t types.Type) *structSort {
	st := t.Underlying().(*types.Struct)
	for _, s := range S.structs {
		if identTP(s.st, st) {
			return s
		}
	}
	base := ""
	if n, ok := t.(*types.Named); ok {
		base = n.Obj().Name()
		if n.Obj().Pkg() != nil {
			base = n.Obj().Pkg().Name() + "." + base
		}
	} else {
		base = fmt.Sprintf("anon%d", len(S.structs))
	}
	name := "S_" + base
	for _, s := range S.structs {
		if s.name == sym(name) {
			name = fmt.Sprintf("%s_%d", name, len(S.structs))
		}
	}
	ss := &structSort{st: st, name: sym(name), ctor: sym("mk_" + name[2:]), gotype: t}
	S.structs = append(S.structs, ss) // register before recursing (recursive types via pointers are Int anyway)
	for i := 0; i < st.NumFields(); i++ {
		ss.fields = append(ss.fields, sym(fmt.Sprintf("%s.%s", name[2:], st.Field(i).Name())))
		S.sortOf(st.Field(i).Type())
	}
	return ss
}

func (S *Sorts) boxOf(t types.Type) *dynCtor {
	key := canonType(types.TypeString(types.Unalias(t), S.qual))
	if c, ok := S.dyn[key]; ok {
		return c
	}
	short := S.typeKey(t)
	c := &dynCtor{typ: t, key: key, ctor: sym("box_" + short), acc: sym("unbox_" + short)}
	S.dyn[key] = c
	S.dynOrder = append(S.dynOrder, key)
	c.psort = S.sortOf(t)
	return c
}

func (S *Sorts) mapOf(k, v types.Type) *mapSort {
	for _, m := range S.maps {
		if identTP(m.k, k) && identTP(m.v, v) {
			return m
		}
	}
	m := &mapSort{k: k, v: v, name: sym("MapVal_" + S.typeKey(k) + "_" + S.typeKey(v))}
	S.maps = append(S.maps, m)
	S.sortOf(k)
	S.sortOf(v)
	return m
}

func (m *mapSort) ctor() string    { return sym("mkmap_" + strings.Trim(m.name, "|")[7:]) }
func (m *mapSort) present() string { return sym("present_" + strings.Trim(m.name, "|")[7:]) }
func (m *mapSort) vals() string    { return sym("vals_" + strings.Trim(m.name, "|")[7:]) }
func (m *mapSort) size() string    { return sym("size_" + strings.Trim(m.name, "|")[7:]) }

// prelude emits sort and datatype declarations.
func (S *Sorts) prelude() string {
	var sb strings.Builder
	if S.useF64 {
		sb.WriteString("(declare-sort F64 0)\n")
	}
	// one mutually recursive datatype block
	var names, bodies []string
	names = append(names, "(Str 0)", "(Slice 0)", "(Dyn 0)")
	bodies = append(bodies,
		"((mkstr (st.base (Array Int Int)) (st.off Int) (st.len Int)))",
		"((mkslice (s.ref Int) (s.off Int) (s.len Int) (s.cap Int)))")
	var dyn strings.Builder
	dyn.WriteString("((dnil) (dother (d.tid Int) (d.val Int))")
	keys := append([]string(nil), S.dynOrder...)
	sort.Strings(keys)
	for _, k := range keys {
		c := S.dyn[k]
		fmt.Fprintf(&dyn, " (%s (%s %s))", c.ctor, c.acc, c.psort)
	}
	dyn.WriteString(")")
	bodies = append(bodies, dyn.String())
	if S.useBytes {
		names = append(names, "(Bytes 0)")
		bodies = append(bodies, "((mkbytes (barr (Array Int Int)) (blen Int)))")
	}
	for _, s := range S.structs {
		names = append(names, "("+s.name+" 0)")
		var b strings.Builder
		b.WriteString("((" + s.ctor)
		for i, f := range s.fields {
			fmt.Fprintf(&b, " (%s %s)", f, S.sortOf(s.st.Field(i).Type()))
		}
		b.WriteString("))")
		bodies = append(bodies, b.String())
	}
	sb.WriteString("(declare-datatypes (" + strings.Join(names, " ") + ") (\n  " + strings.Join(bodies, "\n  ") + "))\n")
	// map values live in heaps only (a map is a reference everywhere else), so their datatypes need not be
	// part of the recursive block; outside it a key sort that is itself in the block (Dyn) is allowed
	for _, m := range S.maps {
		fmt.Fprintf(&sb, "(declare-datatypes ((%s 0)) (((%s (%s (Array %s Bool)) (%s (Array %s %s)) (%s Int)))))\n",
			m.name, m.ctor(), m.present(), S.keySort(m.k), m.vals(), S.keySort(m.k), S.sortOf(m.v), m.size())
	}
	return sb.String()
}

// zero value of a Go type
func (S *Sorts) zero(t types.Type) Term {
	switch u := t.Underlying().(type) {
	case *types.Basic:
		switch {
		case u.Info()&types.IsInteger != 0:
			return "0"
		case u.Info()&types.IsBoolean != 0:
			return "false"
		case u.Info()&types.IsString != 0:
			return "(mkstr ((as const (Array Int Int)) 0) 0 0)"
		case u.Info()&types.IsFloat != 0, u.Info()&types.IsComplex != 0:
			S.useF64 = true
			return "f64.zero"
		}
		return "0"
	case *types.Pointer, *types.Map, *types.Chan, *types.Signature:
		return "0"
	case *types.Slice:
		return "(mkslice 0 0 0 0)"
	case *types.Array:
		return "((as const " + S.sortOf(t) + ") " + S.zero(u.Elem()) + ")"
	case *types.Struct:
		ss := S.structOf(t)
		if len(ss.fields) == 0 {
			return ss.ctor
		}
		var args []Term
		for i := 0; i < u.NumFields(); i++ {
			args = append(args, S.zero(u.Field(i).Type()))
		}
		return app(ss.ctor, args...)
	case *types.Interface, *types.TypeParam:
		return "dnil"
	}
	panic("zero: " + t.String())
}

func strLen(s Term) Term  { return app("st.len", s) }
func strAt(s, i Term) Term { return app("select", app("st.base", s), add(app("st.off", s), i)) }
func add(a, b Term) Term {
	if a == "0" {
		return b
	}
	if b == "0" {
		return a
	}
	return app("+", a, b)
}
func sub(a, b Term) Term {
	if b == "0" {
		return a
	}
	return app("-", a, b)
}
func slRef(s Term) Term { return app("s.ref", s) }
func slOff(s Term) Term { return app("s.off", s) }
func slLen(s Term) Term { return app("s.len", s) }
func slCap(s Term) Term { return app("s.cap", s) }

// wrap reduces a mathematical integer to the representable range of t.
// exact=true means |e| < 2*range so a piecewise-linear wrap suffices.
func wrapInt(t types.Type, e Term, linear bool) Term {
	lo, hi, ok := intRange(t)
	if !ok {
		return e
	}
	mod := new(big.Int).Add(new(big.Int).Sub(hi, lo), big.NewInt(1))
	if linear {
		return ite(app(">", e, bigNum(hi)), app("-", e, bigNum(mod)),
			ite(app("<", e, bigNum(lo)), app("+", e, bigNum(mod)), e))
	}
	if lo.Sign() == 0 {
		return app("mod", e, bigNum(mod))
	}
	// signed: ((e - lo) mod M) + lo
	return app("+", app("mod", app("-", e, bigNum(lo)), bigNum(mod)), bigNum(lo))
}

func inRange(t types.Type, e Term) Term {
	lo, hi, ok := intRange(t)
	if !ok {
		return "true"
	}
	return and(app("<=", bigNum(lo), e), app("<=", e, bigNum(hi)))
}

// identTP is types.Identical up to the identity of type parameters: the same generic declaration seen
// from two generic functions (a method and a spec function, each with its own V) is one sort; every
// type parameter is the sort Dyn.
func identTP(a, b types.Type) bool {
	a, b = types.Unalias(a), types.Unalias(b)
	if types.Identical(a, b) {
		return true
	}
	switch x := a.(type) {
	case *types.TypeParam:
		_, ok := b.(*types.TypeParam)
		return ok
	case *types.Named:
		y, ok := b.(*types.Named)
		if !ok || x.Origin().Obj() != y.Origin().Obj() {
			return false
		}
		xa, ya := x.TypeArgs(), y.TypeArgs()
		if xa.Len() != ya.Len() {
			return false
		}
		for i := 0; i < xa.Len(); i++ {
			if !identTP(xa.At(i), ya.At(i)) {
				return false
			}
		}
		return true
	case *types.Pointer:
		y, ok := b.(*types.Pointer)
		return ok && identTP(x.Elem(), y.Elem())
	case *types.Slice:
		y, ok := b.(*types.Slice)
		return ok && identTP(x.Elem(), y.Elem())
	case *types.Array:
		y, ok := b.(*types.Array)
		return ok && x.Len() == y.Len() && identTP(x.Elem(), y.Elem())
	case *types.Map:
		y, ok := b.(*types.Map)
		return ok && identTP(x.Key(), y.Key()) && identTP(x.Elem(), y.Elem())
	case *types.Chan:
		y, ok := b.(*types.Chan)
		return ok && x.Dir() == y.Dir() && identTP(x.Elem(), y.Elem())
	case *types.Tuple:
		y, ok := b.(*types.Tuple)
		if !ok || x.Len() != y.Len() {
			return false
		}
		for i := 0; i < x.Len(); i++ {
			if !identTP(x.At(i).Type(), y.At(i).Type()) {
				return false
			}
		}
		return true
	case *types.Signature:
		y, ok := b.(*types.Signature)
		return ok && x.Variadic() == y.Variadic() && identTP(x.Params(), y.Params()) && identTP(x.Results(), y.Results())
	case *types.Struct:
		y, ok := b.(*types.Struct)
		if !ok || x.NumFields() != y.NumFields() {
			return false
		}
		for i := 0; i < x.NumFields(); i++ {
			if x.Field(i).Name() != y.Field(i).Name() || x.Field(i).Embedded() != y.Field(i).Embedded() || !identTP(x.Field(i).Type(), y.Field(i).Type()) {
				return false
			}
		}
		return true
	}
	return false
}

// splitAnd flattens a top-level conjunction "(and a b ...)" (recursively) into its conjuncts.
func splitAnd(t Term) []Term {
	s := strings.TrimSpace(string(t))
	if !strings.HasPrefix(s, "(and ") || !strings.HasSuffix(s, ")") {
		return []Term{t}
	}
	body := s[5 : len(s)-1]
	var parts []string
	depth, start := 0, 0
	inBar := false
	for i := 0; i < len(body); i++ {
		c := body[i]
		switch {
		case c == '|':
			inBar = !inBar
		case inBar:
		case c == '(':
			depth++
		case c == ')':
			depth--
			if depth < 0 {
				return []Term{t} // the outer parens did not belong to one "and"
			}
		case (c == ' ' || c == '\n') && depth == 0:
			if i > start {
				parts = append(parts, body[start:i])
			}
			start = i + 1
		}
	}
	if start < len(body) {
		parts = append(parts, body[start:])
	}
	if depth != 0 || len(parts) == 0 {
		return []Term{t}
	}
	var out []Term
	for _, p := range parts {
		out = append(out, splitAnd(Term(p))...)
	}
	return out
}

// keySort: the index sort of the arrays that model a Go map. String keys are interned: Go compares
// them by contents, so the arrays are indexed by an integer identity of the contents (str.id), not by
// the string term (whose sort contains an array and makes array reasoning incomplete).
func (S *Sorts) keySort(k types.Type) string {
	if b, ok := k.Underlying().(*types.Basic); ok && b.Info()&types.IsString != 0 {
		return "Int"
	}
	return S.sortOf(k)
}
