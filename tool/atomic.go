package main

// Atomic cells (DESIGN.md 0.7): a lock-free protocol over one pointer cell that is read with
// atomic.LoadPointer and changed only by atomic.CompareAndSwapPointer, pointing to immutable values.
//
//   //@ atomiccell T invariant INV       (package level)  INV: spec func(v T) bool
//   //@   cas E                            (function level) E over the parameters, casOld, casNew (of type T)
//
// Semantics used by the generator, for every schedule of the other threads:
//   * atomic.LoadPointer returns some pointer that was published by a successful CAS (or the
//     initial value); the value it points to satisfies INV (rely: every CAS site proves INV of
//     the value it installs -- obligation cas:invariant -- and published values are never written
//     again: checked syntactically over the package, obligation cas:immutable).
//   * atomic.CompareAndSwapPointer(dest, old, new) either fails and changes nothing, or succeeds
//     atomically at a moment when the cell holds exactly `old`; the obligation cas:transition
//     requires every clause `cas E` of the function with casOld = *old, casNew = *new, so each
//     atomic step of the protocol is an allowed transition whichever way it is scheduled.
//   * ghost state for postconditions: lastLoad() (the value the last LoadPointer pointed to),
//     lastCasOK() (some CAS of this activation succeeded), lastCasOld()/lastCasNew() (its operands).

import (
	"fmt"
	"go/token"
	"go/types"
	"strings"

	"golang.org/x/tools/go/ssa"
)

type atomicCell struct {
	Type string // name of the value type T in the package
	Inv  string // name of the invariant spec function
	// Assuming: a standing assumption over casOld under which the CAS obligations are stated
	// (e.g. a counter below its machine bound); listed as an assumption on every use
	Assuming string
	Line     int
}

// atomicPrelude: typed ghost accessors for a package that declares an atomic cell.
func atomicPrelude(pc *PkgContracts) string {
	if len(pc.AtomicCells) == 0 {
		return ""
	}
	t := pc.AtomicCells[0].Type
	return fmt.Sprintf(`
func verif_lastLoad() %[1]s { panic("verif: spec only") }
func verif_lastCasOld() %[1]s { panic("verif: spec only") }
func verif_lastCasNew() %[1]s { panic("verif: spec only") }
func verif_lastCasOK() bool { panic("verif: spec only") }
`, t)
}

func (vc *VC) atomicCellOf() (*atomicCell, types.Type, *PkgContracts) {
	if vc.fn == nil || vc.fn.Pkg == nil && vc.fn.Parent() == nil {
		return nil, nil, nil
	}
	pkg := vc.fn.Pkg
	for f := vc.fn; pkg == nil && f != nil; f = f.Parent() {
		pkg = f.Pkg
	}
	if pkg == nil {
		return nil, nil, nil
	}
	pc := vc.P.pcs[pkg.Pkg.Path()]
	if pc == nil || len(pc.AtomicCells) == 0 {
		return nil, nil, nil
	}
	ac := pc.AtomicCells[0]
	o := pkg.Pkg.Scope().Lookup(ac.Type)
	if o == nil {
		vc.fail("atomiccell %s: no such type", ac.Type)
	}
	return ac, o.Type(), pc
}

const (
	ghostLoad   = "$atomic.load"
	ghostCasOK  = "$atomic.casok"
	ghostCasOld = "$atomic.casold"
	ghostCasNew = "$atomic.casnew"
)

// atomicInit gives the ghost state its entry values (no CAS has succeeded yet).
func (vc *VC) atomicInit(st *State) {
	_, t, _ := vc.atomicCellOf()
	if t == nil {
		return
	}
	srt := vc.S.sortOf(t)
	vc.heapSet(st, ghostCasOK, "Bool", "false")
	vc.heapSet(st, ghostLoad, srt, vc.freshConst("load0", srt))
	vc.heapSet(st, ghostCasOld, srt, vc.freshConst("casold0", srt))
	vc.heapSet(st, ghostCasNew, srt, vc.freshConst("casnew0", srt))
	if vc.fi != nil && len(vc.fi.fc.Cas) > 0 {
		ac, _, _ := vc.atomicCellOf()
		if bad := vc.P.atomicImmutable(vc.fi.pkg.PkgPath, ac); len(bad) > 0 {
			vc.oblige("cas", "immutable", "true", "false", vc.fn.Pos(), "a published "+ac.Type+" value is written after its allocation: "+strings.Join(bad, "; "))
		}
	}
}

// invTerm applies the cell invariant to a value term.
func (vc *VC) atomicInv(ac *atomicCell, t types.Type, v Term, st *State) Term {
	fi := vc.fi
	if fi == nil {
		vc.fail("atomic cell used in a function without contract")
	}
	cl := &Clause{Kind: "cas", Text: ac.Inv + "(casNew)", Go: mustSugar(ac.Inv + "(casNew)"), Line: ac.Line, File: fi.pc.File}
	env := map[string]Val{}
	for k, p := range vc.params {
		env[k] = p
	}
	env["casNew"] = Val{t: v, typ: t}
	env["casOld"] = Val{t: v, typ: t}
	return vc.clauseTerm(fi, cl, env, nil, st, vc.entry)
}

func mustSugar(s string) string {
	r, err := rewriteSugar(s)
	if err != nil {
		panic(unsupported{err.Error()})
	}
	return r
}

// atomicCall models sync/atomic.LoadPointer and CompareAndSwapPointer on the declared cell.
func (vc *VC) atomicCall(name string, c *ssa.CallCommon, args []Val, st *State, reach Term, rt types.Type, pos token.Pos) (Val, bool) {
	if name != "sync/atomic.LoadPointer" && name != "sync/atomic.CompareAndSwapPointer" {
		return Val{}, false
	}
	ac, t, _ := vc.atomicCellOf()
	if ac == nil {
		return Val{}, false
	}
	srt := vc.S.sortOf(t)
	hn, hsort := vc.heapName(t)
	deref := func(p Term) Term { return app("select", vc.heapGet(st, hn, hsort), p) }
	switch name {
	case "sync/atomic.LoadPointer":
		p := vc.freshConst("loaded", "Int")
		a := vc.allocGet(st)
		vc.addAssume(reach, and(app("<", "0", p), app("<", p, a)))
		val := vc.define("loadedval", srt, deref(p))
		vc.addAssume(reach, vc.atomicInv(ac, t, val, st))
		vc.heapSet(st, ghostLoad, srt, val)
		vc.assume("atomic cell " + ac.Type + ": a loaded pointer refers to a published value, which satisfies " + ac.Inv + " (rely: obligations cas:invariant at every CAS site, cas:immutable over the package)")
		return Val{t: p, typ: rt}, true
	case "sync/atomic.CompareAndSwapPointer":
		oldP, newP := vc.asTerm(args[1]), vc.asTerm(args[2])
		oldV := vc.define("casold", srt, deref(oldP))
		newV := vc.define("casnew", srt, deref(newP))
		env := map[string]Val{}
		for k, p := range vc.params {
			env[k] = p
		}
		env["casOld"] = Val{t: oldV, typ: t}
		env["casNew"] = Val{t: newV, typ: t}
		if len(vc.fi.fc.Cas) == 0 {
			vc.oblige("cas", "transition", reach, "false", pos, "compare-and-swap on an atomic cell in a function without a `cas` clause")
		}
		guard := reach
		if ac.Assuming != "" {
			acl := &Clause{Kind: "cas", Text: ac.Assuming, Go: mustSugar(ac.Assuming), Line: ac.Line, File: vc.fi.pc.File}
			guard = and(reach, vc.clauseTerm(vc.fi, acl, env, nil, st, vc.entry))
			vc.assume("atomic cell " + ac.Type + ": compare-and-swap obligations are stated under the standing assumption " + ac.Assuming)
		}
		for _, cl := range vc.fi.fc.Cas {
			vc.oblige("cas", "transition", guard, vc.clauseTerm(vc.fi, cl, env, nil, st, vc.entry), pos, cl.Text)
		}
		vc.oblige("cas", "invariant", guard, vc.atomicInv(ac, t, newV, st), pos, ac.Inv+"(casNew)")
		ok := vc.freshConst("casok", "Bool")
		vc.heapSet(st, ghostCasOK, "Bool", or(vc.heapGet(st, ghostCasOK, "Bool"), ok))
		vc.heapSet(st, ghostCasOld, srt, ite(ok, oldV, vc.heapGet(st, ghostCasOld, srt)))
		vc.heapSet(st, ghostCasNew, srt, ite(ok, newV, vc.heapGet(st, ghostCasNew, srt)))
		vc.assume("atomic cell " + ac.Type + ": a compare-and-swap succeeds or fails nondeterministically (any interleaving); success is the linearization point")
		return Val{t: ok, typ: rt}, true
	}
	return Val{}, false
}

// freeVarEnv: free variables of a function literal, by name (for clauses of Name$k contracts).
func (vc *VC) freeVarEnv() map[string]Val {
	out := map[string]Val{}
	for _, fv := range vc.fn.FreeVars {
		if v, ok := vc.vals[fv]; ok {
			out[fv.Name()] = v
		}
	}
	return out
}

// atomicGhost translates lastLoad() / lastCasOld() / lastCasNew() / lastCasOK() in contracts.
func (ex *exprTr) atomicGhost(name string, rt types.Type) (Val, bool) {
	vc := ex.vc
	var g string
	switch name {
	case "verif_lastLoad":
		g = ghostLoad
	case "verif_lastCasOld":
		g = ghostCasOld
	case "verif_lastCasNew":
		g = ghostCasNew
	case "verif_lastCasOK":
		g = ghostCasOK
	default:
		return Val{}, false
	}
	srt := "Bool"
	if g != ghostCasOK {
		srt = vc.S.sortOf(rt)
	}
	return Val{t: vc.heapGet(ex.st, g, srt), typ: rt}, true
}

// atomicImmutable: no function of the package writes a field of a value of the cell type except
// through the allocation it has just made (composite literal initialisation). Returns offenders.
func (P *Program) atomicImmutable(pkgPath string, ac *atomicCell) []string {
	sp := P.ssaPkgs[pkgPath]
	if sp == nil {
		return []string{"package not loaded"}
	}
	o := sp.Pkg.Scope().Lookup(ac.Type)
	if o == nil {
		return []string{"no type " + ac.Type}
	}
	var bad []string
	var visit func(f *ssa.Function)
	visit = func(f *ssa.Function) {
		for _, b := range f.Blocks {
			for _, in := range b.Instrs {
				s, ok := in.(*ssa.Store)
				if !ok {
					continue
				}
				var base ssa.Value
				switch a := s.Addr.(type) {
				case *ssa.FieldAddr:
					base = a.X
				default:
					// whole-value store through a pointer to T
					if pt, ok := s.Addr.Type().Underlying().(*types.Pointer); ok && types.Identical(pt.Elem(), o.Type()) {
						base = s.Addr
					}
				}
				if base == nil {
					continue
				}
				pt, ok := base.Type().Underlying().(*types.Pointer)
				if !ok || !types.Identical(pt.Elem(), o.Type()) {
					continue
				}
				if _, isAlloc := base.(*ssa.Alloc); isAlloc {
					continue
				}
				bad = append(bad, fmt.Sprintf("%s: %s", f.String(), P.fset.Position(s.Pos())))
			}
		}
		for _, a := range f.AnonFuncs {
			visit(a)
		}
	}
	for _, m := range sp.Members {
		switch mm := m.(type) {
		case *ssa.Function:
			visit(mm)
		case *ssa.Type:
			for _, t := range []types.Type{mm.Type(), types.NewPointer(mm.Type())} {
				ms := P.prog.MethodSets.MethodSet(t)
				for i := 0; i < ms.Len(); i++ {
					if fn := P.prog.MethodValue(ms.At(i)); fn != nil && fn.Pkg == sp {
						visit(fn)
					}
				}
			}
		}
	}
	// de-duplicate (methods are reached through value and pointer method sets)
	seen := map[string]bool{}
	var out []string
	for _, b := range bad {
		if !seen[b] {
			seen[b] = true
			out = append(out, b)
		}
	}
	_ = strings.Join
	return out
}
