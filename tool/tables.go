package main

// Table invariants (DESIGN.md §3.9): a representation invariant that method contracts assume
// (`requires wellFormed(rm)`) is discharged on every instance that exists, by compiling the very
// same spec function to Go and evaluating it on each package-level instance in an injected
// in-package test. Instances are finitely many and all enumerated: exhaustive, not sampled.
// A closed-world scan checks that no instance is built or mutated outside package initialisers.

import (
	"go/token"
	"go/parser"
	"go/ast"
	"fmt"
	"go/types"
	"os"
	"path/filepath"
	"sort"
	"strings"

	"golang.org/x/tools/go/ssa"
)

type TableResult struct {
	Spec      string   `json:"spec"`
	Type      string   `json:"type"`
	Instances int      `json:"instances"`
	Failing   []string `json:"failing,omitempty"`
	Exhaustive bool    `json:"exhaustive"`
	ClosedWorld string `json:"closed_world"`
	Err       string   `json:"error,omitempty"`
}

func (P *Program) checkTable(ip string, pc *PkgContracts, t *TableInv) *TableResult {
	res := &TableResult{Spec: t.Spec, Type: t.Type, Exhaustive: true}
	pkg := P.pkgs[ip]
	if pkg == nil {
		res.Err = "package not loaded"
		return res
	}
	tname := strings.TrimPrefix(t.Type, "*")
	tobj := pkg.Types.Scope().Lookup(tname)
	if tobj == nil {
		res.Err = "type " + tname + " not found"
		return res
	}
	target := types.Type(tobj.Type())
	if strings.HasPrefix(t.Type, "*") {
		target = types.NewPointer(target)
	}
	// candidates: package-level variables of the target type or of an interface type it implements
	var names []string
	for _, n := range pkg.Types.Scope().Names() {
		v, ok := pkg.Types.Scope().Lookup(n).(*types.Var)
		if !ok || strings.HasPrefix(n, "verif_") {
			continue
		}
		if types.Identical(v.Type(), target) {
			names = append(names, n)
		} else if it, ok := v.Type().Underlying().(*types.Interface); ok && types.Implements(target, it) {
			names = append(names, n)
		}
	}
	sort.Strings(names)
	var sb strings.Builder
	fmt.Fprintf(&sb, "package %s\n\nimport (\n\t\"fmt\"\n\t\"testing\"\n)\n\nfunc TestVerifTables(t *testing.T) {\n", pkg.Types.Name())
	fmt.Fprintf(&sb, "\tcheck := func(name string, v interface{}) {\n\t\tx, ok := v.(%s)\n\t\tif !ok {\n\t\t\treturn\n\t\t}\n", t.Type)
	fmt.Fprintf(&sb, "\t\tdefer func() {\n\t\t\tif r := recover(); r != nil {\n\t\t\t\tfmt.Printf(\"VERIF-TABLE %%s panic %%v\\n\", name, r)\n\t\t\t}\n\t\t}()\n")
	fmt.Fprintf(&sb, "\t\tfmt.Printf(\"VERIF-TABLE %%s %%v\\n\", name, %s(x))\n\t}\n", t.Spec)
	for _, n := range names {
		fmt.Fprintf(&sb, "\tcheck(%q, %s)\n", n, n)
	}
	sb.WriteString("\tfmt.Println(\"VERIF-TABLES-DONE\")\n}\n")
	// the prelude (spec functions) compiled into the test build
	prelude := withBodies(string(P.overlay[filepath.Join(pc.Dir, "zz_verif_prelude.go")]))
	out, _, err := runReplayTestFiles(P, ip, map[string]string{
		"zz_verif_tables_test.go":  sb.String(),
		"zz_verif_prelude_test.go": prelude,
	}, "^TestVerifTables$")
	if !strings.Contains(out, "VERIF-TABLES-DONE") {
		res.Err = "table test did not run: " + firstLines(out, 10)
		if err != nil {
			res.Err += " (" + err.Error() + ")"
		}
		return res
	}
	for _, l := range strings.Split(out, "\n") {
		f := strings.Fields(strings.TrimSpace(l))
		if len(f) >= 3 && f[0] == "VERIF-TABLE" {
			res.Instances++
			if f[2] != "true" {
				res.Failing = append(res.Failing, f[1])
			}
		}
	}
	res.ClosedWorld = P.closedWorld(ip, target)
	return res
}

// closedWorld: no function outside package initialisers allocates a T or stores to a field of a T.
func (P *Program) closedWorld(ip string, target types.Type) string {
	sp := P.ssaPkgs[ip]
	if sp == nil {
		return "package SSA not available"
	}
	elem := target
	if pt, ok := target.(*types.Pointer); ok {
		elem = pt.Elem()
	}
	var bad []string
	var visit func(f *ssa.Function)
	visit = func(f *ssa.Function) {
		if f.Name() == "init" || strings.HasPrefix(f.Name(), "init#") || strings.HasPrefix(f.Name(), "verif_") {
			return
		}
		for _, b := range f.Blocks {
			for _, in := range b.Instrs {
				switch x := in.(type) {
				case *ssa.Alloc:
					if types.Identical(x.Type().(*types.Pointer).Elem(), elem) {
						bad = append(bad, f.String()+": allocates "+elem.String())
					}
				case *ssa.Store:
					if fa, ok := x.Addr.(*ssa.FieldAddr); ok {
						if pt, ok := fa.X.Type().Underlying().(*types.Pointer); ok && types.Identical(pt.Elem(), elem) {
							bad = append(bad, f.String()+": stores to a field of "+elem.String())
						}
					}
				}
			}
		}
		for _, a := range f.AnonFuncs {
			visit(a)
		}
	}
	for _, m := range sp.Members {
		if f, ok := m.(*ssa.Function); ok {
			visit(f)
		}
	}
	for f := range allMethods(P, sp) {
		visit(f)
	}
	if len(bad) > 0 {
		sort.Strings(bad)
		return "VIOLATED: " + strings.Join(bad, "; ")
	}
	return "no allocation of or field store to " + elem.String() + " outside package initialisers (scanned " + ip + ")"
}

func runReplayTestFiles(P *Program, pkgPath string, files map[string]string, run string) (string, string, error) {
	dir, err := os.MkdirTemp("", "gvc-replay-")
	if err != nil {
		return "", "", err
	}
	defer os.RemoveAll(dir)
	return runTestIn(dir, pkgPath, files, run)
}

// withBodies: the prelude as compilable Go: spec functions declared without a body (uninterpreted names) get a
// panicking body (they are never called by a table test that evaluates a defined spec function over real values;
// if one is, the test reports the panic).
func withBodies(src string) string {
	fset := token.NewFileSet()
	f, err := parser.ParseFile(fset, "prelude.go", src, parser.ParseComments)
	if err != nil {
		return src
	}
	type ins struct{ off int }
	var at []int
	for _, d := range f.Decls {
		if fd, ok := d.(*ast.FuncDecl); ok && fd.Body == nil {
			at = append(at, fset.Position(fd.End()).Offset)
		}
	}
	sort.Sort(sort.Reverse(sort.IntSlice(at)))
	for _, o := range at {
		src = src[:o] + " { panic(\"verif: uninterpreted spec function\") }" + src[o:]
	}
	return src
}
