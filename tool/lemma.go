package main

import (
	"fmt"
	"go/ast"
	"go/parser"
	"go/token"
	"go/types"
	"strings"

	"golang.org/x/tools/go/packages"
)

// preludePos returns a position inside the package's generated prelude file (package scope,
// with that file's imports).
func (P *Program) preludePos(pkg *packages.Package) token.Pos {
	for _, f := range pkg.Syntax {
		if strings.HasSuffix(P.fset.Position(f.Pos()).Filename, "zz_verif_prelude.go") {
			return f.End() - 1
		}
	}
	return token.NoPos
}

func (P *Program) checkLemma(pkg *packages.Package, l *Lemma) (*ast.FuncLit, *types.Info, error) {
	src := fmt.Sprintf("func(%s) bool { return %s }", l.Params, l.Body.Go)
	e, err := parser.ParseExprFrom(P.fset, fmt.Sprintf("%s:%d", l.File, l.Line), src, 0)
	if err != nil {
		return nil, nil, fmt.Errorf("%s:%d: %v", l.File, l.Line, err)
	}
	info := &types.Info{Types: map[ast.Expr]types.TypeAndValue{}, Uses: map[*ast.Ident]types.Object{},
		Defs: map[*ast.Ident]types.Object{}, Selections: map[*ast.SelectorExpr]*types.Selection{},
		Instances: map[*ast.Ident]types.Instance{}}
	if err := types.CheckExpr(P.fset, pkg.Types, P.preludePos(pkg), e, info); err != nil {
		return nil, nil, fmt.Errorf("%s:%d: lemma does not type-check: %v", l.File, l.Line, err)
	}
	return e.(*ast.FuncLit), info, nil
}

// lemmaTerm translates a lemma/axiom body with its parameters bound to fresh constants (skolem=true)
// or universally quantified (skolem=false).
func (vc *VC) lemmaTerm(pkg *packages.Package, l *Lemma, skolem bool) (Term, error) {
	fl, info, err := vc.P.checkLemma(pkg, l)
	if err != nil {
		return "", err
	}
	st := &State{heaps: map[string]Term{}}
	scope := map[string]Val{}
	var binders []string
	var facts []Term
	ex := &exprTr{vc: vc, info: info, env: []map[string]Val{scope}, st: st, old: st}
	for _, f := range fl.Type.Params.List {
		t := ex.typeOf(f.Type)
		for _, n := range f.Names {
			var c string
			if skolem {
				c = vc.freshConst(n.Name, vc.S.sortOf(t))
			} else {
				c = vc.freshName(n.Name)
				binders = append(binders, fmt.Sprintf("(%s %s)", c, vc.S.sortOf(t)))
			}
			scope[n.Name] = Val{t: c, typ: t}
			facts = append(facts, vc.typeFacts(nil, t, c, 0))
		}
	}
	saveND := vc.noDefine
	if !skolem {
		vc.noDefine = true // the parameters are bound variables: no named constants, no per-term facts
	}
	body := ex.tr(fl.Body.List[0].(*ast.ReturnStmt).Results[0]).t
	vc.noDefine = saveND
	if skolem {
		return implies(and(facts...), body), nil
	}
	if len(binders) == 0 {
		return body, nil
	}
	return "(forall (" + strings.Join(binders, " ") + ") " + implies(and(facts...), body) + ")", nil
}

// addAxioms assumes every axiom of the package (quantified) in this VC.
func (vc *VC) addAxioms(pkg *packages.Package, pc *PkgContracts) {
	for _, l := range pc.Lemmas {
		if !l.Axiom {
			continue
		}
		t, err := vc.lemmaTerm(pkg, l, false)
		if err != nil {
			vc.fail("%v", err)
		}
		vc.quantCtx = true
		vc.addAssume("true", t)
		vc.assume("axiom (assumed, not proved): " + pkg.Types.Name() + "." + l.Name + ": " + l.Body.Text)
	}
}

func (P *Program) lemmaObligation(pkg *packages.Package, pc *PkgContracts, l *Lemma) (r *Result, assumptions []string) {
	if l.Axiom {
		return nil, []string{"axiom (assumed, not proved): " + pkg.Types.Name() + "." + l.Name + ": " + l.Body.Text}
	}
	name := pkg.Types.Name() + ".lemma." + l.Name
	vc := newVC(P, nil, nil)
	r = &Result{Name: name, Class: "lemma", Func: name, Construct: l.Body.Text, Pos: fmt.Sprintf("%s:%d", strings.TrimPrefix(l.File, repoDir+"/"), l.Line)}
	func() {
		defer func() {
			if rec := recover(); rec != nil {
				if u, ok := rec.(unsupported); ok {
					r.Status, r.Output = "error", u.msg
					return
				}
				panic(rec)
			}
		}()
		vc.addAxioms(pkg, pc)
		t, err := vc.lemmaTerm(pkg, l, true)
		if err != nil {
			r.Status, r.Output = "error", err.Error()
			return
		}
		var pre strings.Builder
		for _, ev := range vc.events {
			fmt.Fprintf(&pre, "(assert (=> %s %s))\n", ev.Guard, ev.Cond)
		}
		r.Script = vc.scriptHead() + pre.String() + fmt.Sprintf("(assert (not %s))\n(check-sat)\n(get-model)\n", t)
	}()
	for a := range vc.assumed {
		assumptions = append(assumptions, a)
	}
	return
}

// implsOf: functions under contract that implement the interface method fi (same package set).
func (P *Program) implsOf(fi *FuncInfo) []*FuncInfo {
	var out []*FuncInfo
	it, ok := fi.ptypes[0].Underlying().(*types.Interface)
	if !ok {
		return nil
	}
	for _, g := range P.funcs {
		if g.fn == nil || g.fc.Name != fi.fc.Name || g.sig.Recv() == nil {
			continue
		}
		if types.Implements(g.sig.Recv().Type(), it) {
			out = append(out, g)
		}
	}
	return out
}
