package main

// Reference well-formedness of heaps: every reference stored anywhere in memory was allocated
// before "now", i.e. is below the current allocation counter. This is an invariant of the
// concrete semantics (allocation returns the counter and increments it), so assuming it for an
// unconstrained heap version (the initial heap, a heap havocked at a loop head or by a call) is
// sound. It is what makes a freshly allocated object distinct from everything reachable.

import (
	"fmt"
	"go/types"
	"strings"
)

var memElemTypes = map[string]types.Type{}

// refTerms lists the reference-valued sub-terms of a value e of type t (depth-limited).
func (vc *VC) refTerms(t types.Type, e Term, depth int) []Term {
	switch u := t.Underlying().(type) {
	case *types.Pointer, *types.Map:
		return []Term{e}
	case *types.Slice:
		return []Term{slRef(e)}
	case *types.Struct:
		if depth > 1 {
			return nil
		}
		ss := vc.S.structOf(t)
		var out []Term
		for i := 0; i < u.NumFields(); i++ {
			out = append(out, vc.refTerms(u.Field(i).Type(), app(ss.fields[i], e), depth+1)...)
		}
		return out
	}
	return nil
}

// heapWF returns the quantified well-formedness fact for heap version h (or "").
func (vc *VC) heapWF(name string, h Term, alloc Term) Term {
	var cell Term
	var binders string
	var et types.Type
	switch {
	case strings.HasPrefix(name, "Mem_"):
		et = memElemTypes[name]
		cell = "(select (select " + h + " wf!r) wf!j)"
		binders = "((wf!r Int) (wf!j Int))"
	case strings.HasPrefix(name, "Heap_"):
		et = heapElemTypes[name]
		cell = "(select " + h + " wf!r)"
		binders = "((wf!r Int))"
	case strings.HasPrefix(name, "MapHeap_"):
		// map sizes are non-negative; the nil map (reference 0) is empty
		for _, m := range vc.S.maps {
			if "MapHeap_"+strings.Trim(m.name, "|")[7:] == name {
				ks := vc.S.keySort(m.k)
				// values stored under present keys are well-formed Go values: references below the
				// allocation counter, slice shapes, interface typing
				vcell := fmt.Sprintf("(select (%s (select %s wf!r)) wf!k)", m.vals(), h)
				var vfacts []Term
				for _, r := range vc.refTerms(m.v, vcell, 0) {
					vfacts = append(vfacts, app("<", r, alloc), app("<=", "0", r))
				}
				vfacts = append(vfacts, vc.ifaceFacts(m.v, vcell, 0))
				vfacts = append(vfacts, vc.shapeFacts(m.v, vcell, 0)...)
				extra := ""
				if vf := and(vfacts...); vf != "true" {
					extra = fmt.Sprintf(" (forall ((wf!r Int) (wf!k %s)) (! (=> (select (%s (select %s wf!r)) wf!k) %s) :pattern (%s)))", ks, m.present(), h, vf, vcell)
				}
				return fmt.Sprintf("(and"+extra+" (forall ((wf!r Int)) (! (<= 0 (%s (select %s wf!r))) :pattern ((select %s wf!r)))) (= (%s (select %s 0)) 0)"+
					" (forall ((wf!r Int) (wf!k %s)) (! (=> (select (%s (select %s wf!r)) wf!k) (and (<= 1 (%s (select %s wf!r))) (not (= wf!r 0)))) :pattern ((select (%s (select %s wf!r)) wf!k)))))",
					m.size(), h, h, m.size(), h, ks, m.present(), h, m.size(), h, m.present(), h)
			}
		}
		return ""
	default:
		return ""
	}
	if et == nil {
		return ""
	}
	refs := vc.refTerms(et, cell, 0)
	// interface-typed components hold nil or a value of an implementing dynamic type
	ifacts := vc.ifaceFacts(et, cell, 0)
	if len(refs) == 0 && ifacts == "true" && len(vc.shapeFacts(et, cell, 0)) == 0 {
		return ""
	}
	var cs []Term
	for _, r := range refs {
		cs = append(cs, app("<", r, alloc), app("<=", "0", r))
	}
	cs = append(cs, ifacts)
	cs = append(cs, vc.shapeFacts(et, cell, 0)...)
	return fmt.Sprintf("(forall %s (! %s :pattern (%s)))", binders, and(cs...), cell)
}

// flushWF assumes well-formedness for the heap versions of s that were introduced unconstrained
// since the last flush, relative to the allocation counter of s.
func (vc *VC) flushWF(s *State) {
	if len(vc.pendingWF) == 0 {
		return
	}
	a := vc.allocGet(s)
	for _, name := range sortedKeys(vc.pendingWF) {
		h := vc.pendingWF[name]
		if cur, ok := s.heaps[name]; ok && cur == h {
			if f := vc.heapWF(name, h, a); f != "" {
				vc.quantCtx = true
				vc.addAssume("true", f)
			}
		}
	}
	vc.pendingWF = map[string]Term{}
}

// ifaceFacts: typing facts for the interface-typed components of a value (directly or in struct fields).
func (vc *VC) ifaceFacts(t types.Type, e Term, depth int) Term {
	switch u := t.Underlying().(type) {
	case *types.Interface:
		if u.NumMethods() > 0 {
			if f := vc.closedFact(t, e); f != "" {
				return f
			}
			return or(app("(_ is dnil)", e), app(vc.implFun(t), e))
		}
	case *types.Struct:
		if depth > 2 {
			return "true"
		}
		ss := vc.S.structOf(t)
		var fs []Term
		for i := 0; i < u.NumFields(); i++ {
			fs = append(fs, vc.ifaceFacts(u.Field(i).Type(), app(ss.fields[i], e), depth+1))
		}
		return and(fs...)
	}
	return "true"
}

// shapeFacts: value-shape facts of a memory cell that every Go value satisfies: integer ranges of
// fixed-width fields, 0 <= len <= cap of slices, non-negative string lengths (depth-limited).
func (vc *VC) shapeFacts(t types.Type, e Term, depth int) []Term {
	switch u := t.Underlying().(type) {
	case *types.Basic:
		if _, _, ok := intInfo(t); ok {
			if f := inRange(t, e); f != "true" {
				return []Term{f}
			}
		}
		if u.Info()&types.IsString != 0 {
			return []Term{app("<=", "0", strLen(e)), app("<=", strLen(e), maxLen), app("<=", "0", app("st.off", e))}
		}
	case *types.Slice:
		return []Term{app("<=", "0", slOff(e)), app("<=", "0", slLen(e)), app("<=", slLen(e), slCap(e)), app("<=", slCap(e), maxLen)}
	case *types.Struct:
		if depth > 1 {
			return nil
		}
		ss := vc.S.structOf(t)
		var out []Term
		for i := 0; i < u.NumFields(); i++ {
			out = append(out, vc.shapeFacts(u.Field(i).Type(), app(ss.fields[i], e), depth+1)...)
		}
		return out
	}
	return nil
}
