package main

import (
	"bytes"
	"context"
	"fmt"
	"go/types"
	"os"
	"os/exec"
	"sort"
	"strings"
	"sync"
	"time"
)

type Result struct {
	Name      string  `json:"name"`
	Class     string  `json:"class"`
	Func      string  `json:"func"`
	Status    string  `json:"status"` // unsat (discharged), sat, unknown, error
	Solver    string  `json:"solver"`
	Ms        int64   `json:"ms"`
	Pos       string  `json:"pos"`
	Construct string  `json:"construct"`
	Model     string  `json:"-"`
	Output    string  `json:"-"`
	Script    string  `json:"-"`
	Second    string  `json:"second_solver,omitempty"`
	Quant     bool    `json:"quantified,omitempty"`
	ev        *Event
	vc        *VC
	Replay    *ReplayInfo `json:"-"`
	ScriptQF  string      `json:"-"`
	Candidate bool        `json:"-"`
	Timeout   int         `json:"-"` // per-function solver budget (contract directive `timeout N`), 0 = default
}

func (vc *VC) scriptHead() string {
	var sb strings.Builder
	sb.WriteString("(set-option :produce-models true)\n(set-logic ALL)\n")
	// make sure every sort used in decls is registered before the prelude is printed
	sb.WriteString(vc.S.prelude())
	if vc.S.useF64 && !vc.declSet["f64.zero"] {
		sb.WriteString("(declare-const f64.zero F64)\n")
	}
	// interface-implementation predicates
	var names []string
	for n := range vc.implPred {
		names = append(names, n)
	}
	sort.Strings(names)
	for _, n := range names {
		it := vc.implPred[n]
		tid := sym(strings.Trim(n, "|") + "!tid")
		fmt.Fprintf(&sb, "(declare-fun %s (Int) Bool)\n", tid)
		body := app(tid, "(d.tid x)")
		keys := append([]string(nil), vc.S.dynOrder...)
		sort.Strings(keys)
		for _, k := range keys {
			c := vc.S.dyn[k]
			v := "false"
			if types.Implements(c.typ, it) {
				v = "true"
			}
			body = fmt.Sprintf("(ite ((_ is %s) x) %s %s)", c.ctor, v, body)
		}
		body = fmt.Sprintf("(ite ((_ is dnil) x) false %s)", body)
		fmt.Fprintf(&sb, "(define-fun %s ((x Dyn)) Bool %s)\n", n, body)
	}
	for _, d := range vc.decls {
		sb.WriteString(d)
		sb.WriteString("\n")
	}
	// typing of dynamic values: the payload of an integer box lies in the range of its Go type
	var intBoxes []*dynCtor
	for _, k := range vc.S.dynOrder {
		c := vc.S.dyn[k]
		if _, _, ok := intRange(c.typ); ok {
			intBoxes = append(intBoxes, c)
		}
	}
	if len(intBoxes) > 0 {
		for _, d := range vc.decls {
			if strings.HasPrefix(d, "(declare-const ") && strings.HasSuffix(d, " Dyn)") {
				name := strings.TrimSuffix(strings.TrimPrefix(d, "(declare-const "), " Dyn)")
				for _, c := range intBoxes {
					fmt.Fprintf(&sb, "(assert (=> ((_ is %s) %s) %s))\n", c.ctor, name, inRange(c.typ, app(c.acc, name)))
				}
			}
		}
	}
	return sb.String()
}

func (vc *VC) obligations() []*Result {
	head := vc.scriptHead()
	var out []*Result
	var pre strings.Builder
	fname := vc.fn.String()
	if vc.fi != nil {
		fname = vc.fi.qname()
	}
	// quantifier-free variant: quantified assumptions dropped (fewer assumptions: still sound for
	// "unsat"; a "sat" there is only a candidate and is trusted only if it replays on the real code)
	var headQF strings.Builder
	for _, l := range strings.Split(head, "\n") {
		if strings.HasPrefix(l, "(assert (forall") && !strings.Contains(l, "str.eq") {
			continue // (the string-equality axioms of the encoding itself stay: they are cheap and pattern-driven)
		}
		headQF.WriteString(l + "\n")
	}
	var preQF strings.Builder
	anyQ := false
	for _, ev := range vc.events {
		if !ev.Oblig {
			var a string
			if ev.Guard == "true" || ev.Guard == "" {
				a = fmt.Sprintf("(assert %s)\n", ev.Cond)
			} else {
				a = fmt.Sprintf("(assert (=> %s %s))\n", ev.Guard, ev.Cond)
			}
			pre.WriteString(a)
			if strings.Contains(ev.Cond, "(forall ") || strings.Contains(ev.Cond, "(exists ") {
				anyQ = true
			} else {
				preQF.WriteString(a)
			}
			continue
		}
		goal := fmt.Sprintf("(assert (and %s (not %s)))\n(check-sat)\n(get-model)\n", ev.Guard, ev.Cond)
		r := &Result{Name: ev.Name, Class: ev.Class, Func: fname, Pos: vc.posStr(ev.Pos), Construct: ev.Construct, Script: head + pre.String() + goal, ev: ev, vc: vc, Quant: ev.Quant}
		if anyQ && !strings.Contains(ev.Cond, "(forall ") && !strings.Contains(ev.Cond, "(exists ") {
			r.ScriptQF = headQF.String() + preQF.String() + goal
		}
		out = append(out, r)
	}
	return out
}

type solverSpec struct {
	name string
	args func(file string, sec int) []string
}

var solvers = []solverSpec{
	{"z3-new", func(f string, s int) []string { return []string{"z3-new", fmt.Sprintf("-T:%d", s), f} }},
	{"cvc5", func(f string, s int) []string {
		return []string{"cvc5", fmt.Sprintf("--tlimit=%d", s*1000), "--produce-models", f}
	}},
	{"z3", func(f string, s int) []string { return []string{"z3", fmt.Sprintf("-T:%d", s), f} }},
}

func runSolver(sp solverSpec, file string, sec int) (status, output string, ms int64) {
	ctx, cancel := context.WithTimeout(context.Background(), time.Duration(sec+2)*time.Second)
	defer cancel()
	a := sp.args(file, sec)
	cmd := exec.CommandContext(ctx, a[0], a[1:]...)
	var buf bytes.Buffer
	cmd.Stdout = &buf
	cmd.Stderr = &buf
	t0 := time.Now()
	cmd.Run()
	ms = time.Since(t0).Milliseconds()
	output = buf.String()
	first := strings.TrimSpace(strings.SplitN(output, "\n", 2)[0])
	switch first {
	case "unsat", "sat", "unknown":
		status = first
	default:
		if strings.Contains(output, "timeout") || ctx.Err() != nil {
			status = "unknown"
		} else {
			status = "error"
		}
	}
	return
}

// solveAll discharges obligations in parallel. two=true: every unsat must be confirmed by a second solver.
func solveAll(rs []*Result, sec int, two bool, workers int) {
	dir, err := os.MkdirTemp("", "gvc-smt-")
	if err != nil {
		panic(err)
	}
	defer os.RemoveAll(dir)
	var wg sync.WaitGroup
	ch := make(chan int)
	for w := 0; w < workers; w++ {
		wg.Add(1)
		go func() {
			defer wg.Done()
			for i := range ch {
				solveOne(rs[i], dir, i, sec, two)
			}
		}()
	}
	for i := range rs {
		ch <- i
	}
	close(ch)
	wg.Wait()
}

func firstLines(s string, n int) string {
	ls := strings.Split(strings.TrimSpace(s), "\n")
	if len(ls) > n {
		ls = ls[:n]
	}
	return strings.Join(ls, " | ")
}
