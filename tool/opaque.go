package main

import "go/types"

// isOpaqueHere: the spec function is declared `spec opaque` and the function being verified does
// not `reveals` it, so only its name (an uninterpreted function) is visible. Lemmas see every
// definition.
func (vc *VC) isOpaqueHere(fo *types.Func) bool {
	if fo.Pkg() == nil {
		return false
	}
	pc := vc.P.pcs[fo.Pkg().Path()]
	if pc == nil || !pc.Opaque[fo.Name()] {
		return false
	}
	if vc.fi == nil {
		return false
	}
	for _, r := range vc.fi.fc.Reveals {
		if r == fo.Name() || r == "*" {
			return false
		}
	}
	return true
}
