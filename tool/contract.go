package main

// Contract files: /repo/<pkg>/contracts_verif.go, `//go:build verif`, comment-only.
// Grammar (every line starts with `//@`):
//
//	import "path"                       extra import for the generated prelude
//	func Name | func (*T).M | func (T).M | func Iface.M
//	  property C30 C10
//	  requires EXPR
//	  ensures EXPR
//	  modifies ITEM, ITEM
//	  loop K: invariant EXPR
//	  loop K: decreases EXPR
//	  loop K: modifies ITEM
//	  may_panic | trusted | pure | nosafety | timeout N
//	spec func f(...) T {  ... }         verbatim Go (with sugar), ends at a line `}`
//	lemma name(params): EXPR            (property ...)
//	axiom name(params): EXPR
//
// A line that does not start with a keyword continues the previous clause.

import (
	"bufio"
	"fmt"
	"os"
	"path/filepath"
	"regexp"
	"strconv"
	"strings"
)

type Clause struct {
	Kind string // requires ensures invariant decreases modifies lemma axiom
	Text string // raw text (with sugar)
	Go   string // after sugar rewriting
	Line int
	File string
	Loop int
	Hint bool
	TmplVar   string
	TmplTypes []string
	NameOnly  bool // "names" clause
	MonType   string // monitor clauses: the type of monSelf
}

type FuncContract struct {
	Key        string // as written: Name, (*T).M, (T).M, Iface.M
	Recv       string // T (without star) or ""
	RecvPtr    bool
	Anon       int // k > 0: the k-th function literal (source order, top level) inside the named function: Name$k
	Name       string
	Props      []string
	Requires   []*Clause
	Ensures    []*Clause
	Modifies   []*Clause
	LoopInv    map[int][]*Clause
	LoopDec    map[int]*Clause
	LoopMod    map[int][]*Clause
	LoopHint   map[int][]*Clause // `loop K: hint E`: instances of spec-function definitions (unfold), assumed
	MayPanic   bool
	Trusted    bool // contract assumed, body not verified (listed as assumption)
	NoSafety   bool
	NoOverflow bool
	Counts     bool      // every call of this interface method is counted per receiver (ghost calls(recv, "Name"))
	Stream     bool      // every call hands out the next element of the receiver's stream (ghost streamPos(recv))
	Tallies    string    // `tallies KEY by AMOUNT`: every call adds AMOUNT to the ghost counter of KEY
	Cas        []*Clause // allowed transitions of the package's atomic cell at every compare-and-swap of this function
	QInst      bool // bounded quantifiers get instances at the range indices; forall goals are proved at a fresh constant
	IndexFn    bool // element positions are ix(off, i) instead of off + i (robust quantifier patterns)
	NoAxioms   bool // the package's axioms are not assumed in this function's obligations (keeps unrelated quantified axioms out)
	Lean       bool // obligations checked where a path ends (return, cut back edge) are not assumed afterwards
	Uses       []string
	Dispatch   []string // interface methods resolved by dynamic type at call sites (see dispatch.go)
	Reveals    []string // opaque spec functions whose definition this function's proof may use
	Hints      []*Clause // function-level `hint E`: instances of spec-function definitions, assumed at entry
	Timeout    int
	File       string
	Line       int
	PkgDir     string
	Impls      []string // for interface contracts: filled by loader
	IsIface    bool
	Ghost      []string
	PanicsWhen []*Clause // `panics EXPR` : explicit panic allowed exactly when
}

type Lemma struct {
	Name   string
	Params string
	Body   *Clause
	Props  []string
	Axiom  bool
	File   string
	Line   int
}

// TableInv: `table SPEC over *T` — the spec function (a representation invariant) is evaluated,
// as compiled Go, on every package-level instance of T (exhaustive; DESIGN.md §3.9).
type TableInv struct {
	Spec  string
	Type  string
	Props []string
	Line  int
}

type PkgContracts struct {
	Dir     string // absolute package dir in repo
	RelDir  string
	PkgName string
	Imports []string
	Funcs   []*FuncContract
	Specs   []string // verbatim Go source of spec funcs (sugar rewritten)
	Lemmas  []*Lemma
	Tables  []*TableInv
	Closed  []*closedDecl
	AtomicCells []*atomicCell
	Monitors    []*monitorDecl
	PureFields []string // TYPE.FIELD: calls through this function-valued struct field are pure and deterministic (assumed)
	SharedBytes string  // import name of a package whose byte-sequence type this package's contracts share (sharedbytes NAME)
	PureFuncs  []string // TYPE: calls of values of this named function type are pure and deterministic (assumed)
	Opaque  map[string]bool
	File    string
	Raw     string
}

var kwRe = regexp.MustCompile(`^(import|func|property|requires|names|ensures|modifies|loop|may_panic|trusted|nosafety|timeout|spec|lemma|axiom|panics|table|nooverflow|noaxioms|lean|indexfn|qinst|cas|tallies|counts|stream|dispatch|atomiccell|monitor|closed|purefield|purefunc|sharedbytes|hint|uses|reveals)\b`)

func parseContractFile(path string) (*PkgContracts, error) {
	f, err := os.Open(path)
	if err != nil {
		return nil, err
	}
	defer f.Close()
	pc := &PkgContracts{File: path, Dir: filepath.Dir(path)}
	sc := bufio.NewScanner(f)
	sc.Buffer(make([]byte, 1<<20), 1<<20)
	var cur *FuncContract
	var curLemma *Lemma
	var curTable *TableInv
	var last *Clause
	inSpec := false
	var spec []string
	ln := 0
	for sc.Scan() {
		ln++
		line := sc.Text()
		tl := strings.TrimSpace(line)
		if strings.HasPrefix(tl, "package ") {
			pc.PkgName = strings.TrimSpace(strings.TrimPrefix(tl, "package "))
			continue
		}
		if !strings.HasPrefix(tl, "//@") {
			continue
		}
		body := strings.TrimPrefix(tl, "//@")
		if inSpec {
			spec = append(spec, body)
			if strings.TrimRight(body, " \t") == " }" || strings.TrimRight(body, " \t") == "}" {
				inSpec = false
				pc.Specs = append(pc.Specs, strings.Join(spec, "\n"))
				spec = nil
			}
			continue
		}
		t := strings.TrimSpace(body)
		if t == "" || strings.HasPrefix(t, "//") {
			continue
		}
		// strip trailing comment
		if i := strings.Index(t, " // "); i >= 0 {
			t = strings.TrimSpace(t[:i])
		}
		m := kwRe.FindString(t)
		if m == "" {
			if last == nil {
				return nil, fmt.Errorf("%s:%d: continuation without clause", path, ln)
			}
			last.Text += " " + t
			continue
		}
		rest := strings.TrimSpace(t[len(m):])
		switch m {
		case "import":
			pc.Imports = append(pc.Imports, rest)
			last = nil
		case "closed":
			// closed Iface: T1, T2, *T3
			i := strings.Index(rest, ":")
			if i < 0 {
				return nil, fmt.Errorf("%s:%d: closed IFACE: T1, T2, ...", path, ln)
			}
			cd := &closedDecl{iface: strings.TrimSpace(rest[:i]), line: ln}
			for _, t := range strings.Split(rest[i+1:], ",") {
				if t = strings.TrimSpace(t); t != "" {
					cd.impls = append(cd.impls, t)
				}
			}
			pc.Closed = append(pc.Closed, cd)
			cur, curLemma, curTable = nil, nil, nil
			last = nil
		case "monitor":
			// monitor T.mu invariant INV rely R
			f := strings.Fields(rest)
			i := strings.Index(f[0], ".")
			if (len(f) != 5 && len(f) != 7) || i < 0 || f[1] != "invariant" || f[3] != "rely" || (len(f) == 7 && f[5] != "assuming") {
				return nil, fmt.Errorf("%s:%d: monitor TYPE.FIELD invariant SPEC rely SPEC [assuming SPEC]", path, ln)
			}
			md := &monitorDecl{Type: f[0][:i], Field: f[0][i+1:], Inv: f[2], Rely: f[4], Line: ln}
			if len(f) == 7 {
				md.Assuming = f[6]
			}
			pc.Monitors = append(pc.Monitors, md)
			cur, curLemma, curTable = nil, nil, nil
			last = nil
		case "atomiccell":
			f := strings.Fields(rest)
			if len(f) < 3 || f[1] != "invariant" || (len(f) > 3 && f[3] != "assuming") {
				return nil, fmt.Errorf("%s:%d: atomiccell TYPE invariant SPEC [assuming EXPR over casOld]", path, ln)
			}
			ac := &atomicCell{Type: f[0], Inv: f[2], Line: ln}
			if len(f) > 4 {
				ac.Assuming = strings.TrimSpace(rest[strings.Index(rest, " assuming ")+10:])
			}
			pc.AtomicCells = append(pc.AtomicCells, ac)
			cur, curLemma, curTable = nil, nil, nil
			last = nil
		case "counts":
			if cur != nil {
				cur.Counts = true
			}
			last = nil
		case "stream":
			if cur != nil {
				cur.Stream = true
			}
			last = nil
		case "tallies":
			if cur == nil {
				return nil, fmt.Errorf("%s:%d: tallies outside func", path, ln)
			}
			cur.Tallies = rest
			last = nil
		case "cas":
			if cur == nil {
				return nil, fmt.Errorf("%s:%d: cas outside func", path, ln)
			}
			cl := &Clause{Kind: "cas", Text: rest, Line: ln, File: path}
			cur.Cas = append(cur.Cas, cl)
			last = cl
		case "purefield":
			pc.PureFields = append(pc.PureFields, rest)
			cur, curLemma, curTable = nil, nil, nil
			last = nil
		case "sharedbytes":
			pc.SharedBytes = strings.TrimSpace(rest)
			cur, curLemma, curTable = nil, nil, nil
			last = nil
		case "purefunc":
			pc.PureFuncs = append(pc.PureFuncs, rest)
			cur, curLemma, curTable = nil, nil, nil
			last = nil
		case "table":
			f := strings.Fields(rest)
			if len(f) != 3 || f[1] != "over" {
				return nil, fmt.Errorf("%s:%d: table SPEC over TYPE", path, ln)
			}
			curTable = &TableInv{Spec: f[0], Type: f[2], Line: ln}
			pc.Tables = append(pc.Tables, curTable)
			cur, curLemma = nil, nil
			last = nil
		case "spec":
			// `spec opaque func f(...)`: f is an uninterpreted function except in functions that `reveals f`
			if strings.HasPrefix(rest, "opaque ") {
				rest = strings.TrimSpace(strings.TrimPrefix(rest, "opaque "))
				if m := regexp.MustCompile(`^func\s+(\w+)`).FindStringSubmatch(rest); m != nil {
					if pc.Opaque == nil {
						pc.Opaque = map[string]bool{}
					}
					pc.Opaque[m[1]] = true
				}
			}
			inSpec = true
			spec = []string{rest}
			if !strings.Contains(rest, "{") || (strings.HasSuffix(strings.TrimSpace(rest), "}") && strings.Count(rest, "{") == strings.Count(rest, "}")) {
				inSpec = false
				pc.Specs = append(pc.Specs, rest)
				spec = nil
			}
			last = nil
		case "func":
			cur = &FuncContract{Key: rest, File: path, Line: ln, PkgDir: pc.Dir,
				LoopInv: map[int][]*Clause{}, LoopDec: map[int]*Clause{}, LoopMod: map[int][]*Clause{}}
			curLemma, curTable = nil, nil
			if err := parseFuncKey(cur); err != nil {
				return nil, fmt.Errorf("%s:%d: %v", path, ln, err)
			}
			pc.Funcs = append(pc.Funcs, cur)
			last = nil
		case "lemma", "axiom":
			i := strings.Index(rest, "(")
			j := matchParen(rest, i)
			if i < 0 || j < 0 {
				return nil, fmt.Errorf("%s:%d: bad lemma header", path, ln)
			}
			k := strings.Index(rest[j:], ":")
			if k < 0 {
				return nil, fmt.Errorf("%s:%d: lemma needs ':'", path, ln)
			}
			cl := &Clause{Kind: m, Text: strings.TrimSpace(rest[j+k+1:]), Line: ln, File: path}
			curLemma = &Lemma{Name: strings.TrimSpace(rest[:i]), Params: rest[i+1 : j], Body: cl, Axiom: m == "axiom", File: path, Line: ln}
			pc.Lemmas = append(pc.Lemmas, curLemma)
			cur, curTable = nil, nil
			last = cl
		case "property":
			ps := strings.Fields(rest)
			if cur != nil {
				cur.Props = append(cur.Props, ps...)
			} else if curLemma != nil {
				curLemma.Props = append(curLemma.Props, ps...)
			} else if curTable != nil {
				curTable.Props = append(curTable.Props, ps...)
			}
			last = nil
		case "requires", "ensures", "modifies", "panics", "names":
			if cur == nil {
				return nil, fmt.Errorf("%s:%d: clause outside func", path, ln)
			}
			cl := &Clause{Kind: m, Text: rest, Line: ln, File: path}
			if m == "names" {
				// names res == f(args): gives the result a name (f uninterpreted) for use in callers' contracts;
				// assumed at call sites, not an obligation of the body
				cl.Kind, cl.NameOnly = "ensures", true
				m = "ensures"
			}
			// clause template:  ensures[T: int8|int16|...] P(T)  -> one clause per listed type
			if strings.HasPrefix(rest, "[") {
				j := strings.Index(rest, "]")
				c := strings.Index(rest, ":")
				if j < 0 || c < 0 || c > j {
					return nil, fmt.Errorf("%s:%d: bad clause template", path, ln)
				}
				cl.TmplVar = strings.TrimSpace(rest[1:c])
				for _, t := range strings.Split(rest[c+1:j], "|") {
					cl.TmplTypes = append(cl.TmplTypes, strings.TrimSpace(t))
				}
				cl.Text = strings.TrimSpace(rest[j+1:])
			}
			switch m {
			case "requires":
				cur.Requires = append(cur.Requires, cl)
			case "ensures":
				cur.Ensures = append(cur.Ensures, cl)
			case "modifies":
				cur.Modifies = append(cur.Modifies, cl)
			case "panics":
				cur.PanicsWhen = append(cur.PanicsWhen, cl)
			}
			last = cl
		case "loop":
			if cur == nil {
				return nil, fmt.Errorf("%s:%d: loop outside func", path, ln)
			}
			i := strings.Index(rest, ":")
			if i < 0 {
				return nil, fmt.Errorf("%s:%d: loop needs ':'", path, ln)
			}
			k, err := strconv.Atoi(strings.TrimSpace(rest[:i]))
			if err != nil {
				return nil, fmt.Errorf("%s:%d: bad loop ordinal", path, ln)
			}
			r2 := strings.TrimSpace(rest[i+1:])
			switch {
			case strings.HasPrefix(r2, "invariant"):
				cl := &Clause{Kind: "invariant", Text: strings.TrimSpace(r2[len("invariant"):]), Line: ln, File: path, Loop: k}
				cur.LoopInv[k] = append(cur.LoopInv[k], cl)
				last = cl
			case strings.HasPrefix(r2, "decreases"):
				cl := &Clause{Kind: "decreases", Text: strings.TrimSpace(r2[len("decreases"):]), Line: ln, File: path, Loop: k}
				cur.LoopDec[k] = cl
				last = cl
			case strings.HasPrefix(r2, "modifies"):
				// loop K: modifies X[*]  -- the loop writes memory of X's element type only inside the window of the
				// slice X (evaluated when the loop is entered); checked at every back edge, assumed at the loop head
				txt := strings.TrimSpace(r2[len("modifies"):])
				if !strings.HasSuffix(txt, "[*]") {
					return nil, fmt.Errorf("%s:%d: loop modifies needs the form  X[*]", path, ln)
				}
				cl := &Clause{Kind: "loopmod", Text: strings.TrimSuffix(txt, "[*]"), Line: ln, File: path, Loop: k}
				cur.LoopMod[k] = append(cur.LoopMod[k], cl)
				last = nil
			case strings.HasPrefix(r2, "hint"):
				cl := &Clause{Kind: "invariant", Text: strings.TrimSpace(r2[len("hint"):]), Line: ln, File: path, Loop: k, Hint: true}
				if cur.LoopHint == nil {
					cur.LoopHint = map[int][]*Clause{}
				}
				cur.LoopHint[k] = append(cur.LoopHint[k], cl)
				last = cl
			default:
				return nil, fmt.Errorf("%s:%d: bad loop clause", path, ln)
			}
		case "reveals":
			if cur == nil {
				return nil, fmt.Errorf("%s:%d: reveals outside func", path, ln)
			}
			cur.Reveals = append(cur.Reveals, strings.Fields(strings.ReplaceAll(rest, ",", " "))...)
			last = nil
		case "dispatch":
			if cur == nil {
				return nil, fmt.Errorf("%s:%d: dispatch outside func", path, ln)
			}
			cur.Dispatch = append(cur.Dispatch, strings.Fields(strings.ReplaceAll(rest, ",", " "))...)
			last = nil
		case "uses":
			// uses lemmaName ...: the (separately proved) lemmas are available as quantified facts
			if cur == nil {
				return nil, fmt.Errorf("%s:%d: uses outside func", path, ln)
			}
			cur.Uses = append(cur.Uses, strings.Fields(strings.ReplaceAll(rest, ",", " "))...)
			last = nil
		case "hint":
			if cur == nil {
				return nil, fmt.Errorf("%s:%d: hint outside func", path, ln)
			}
			cl := &Clause{Kind: "requires", Text: rest, Line: ln, File: path, Hint: true}
			cur.Hints = append(cur.Hints, cl)
			last = cl
		case "may_panic":
			cur.MayPanic = true
			last = nil
		case "nooverflow":
			// every integer +, -, *, unary minus, signed division and integer conversion in the body
			// must be exact (an obligation of class safe:overflow each)
			cur.NoOverflow = true
			last = nil
		case "lean":
			cur.Lean = true
			last = nil
		case "noaxioms":
			cur.NoAxioms = true
			last = nil
		case "indexfn":
			cur.IndexFn = true
			last = nil
		case "qinst":
			cur.QInst = true
			last = nil
		case "trusted":
			cur.Trusted = true
			last = nil
		case "nosafety":
			cur.NoSafety = true
			last = nil
		case "timeout":
			cur.Timeout, _ = strconv.Atoi(rest)
			last = nil
		}
	}
	if inSpec {
		return nil, fmt.Errorf("%s: unterminated spec func", path)
	}
	// expand clause templates
	for _, fc := range pc.Funcs {
		fc.Requires = expandTemplates(fc.Requires)
		fc.Ensures = expandTemplates(fc.Ensures)
	}
	// sugar
	for _, fc := range pc.Funcs {
		for _, cl := range fc.allClauses() {
			g, err := rewriteSugar(cl.Text)
			if err != nil {
				return nil, fmt.Errorf("%s:%d: %v", cl.File, cl.Line, err)
			}
			cl.Go = g
		}
	}
	for _, l := range pc.Lemmas {
		g, err := rewriteSugar(l.Body.Text)
		if err != nil {
			return nil, fmt.Errorf("%s:%d: %v", l.File, l.Line, err)
		}
		l.Body.Go = g
	}
	for i, s := range pc.Specs {
		g, err := rewriteSugarStmts(s)
		if err != nil {
			return nil, fmt.Errorf("%s: spec func: %v\n%s", path, err, s)
		}
		pc.Specs[i] = g
	}
	return pc, nil
}

func (fc *FuncContract) allClauses() []*Clause {
	var out []*Clause
	out = append(out, fc.Requires...)
	out = append(out, fc.Ensures...)
	out = append(out, fc.PanicsWhen...)
	for _, cs := range fc.LoopInv {
		out = append(out, cs...)
	}
	for _, cs := range fc.LoopMod {
		out = append(out, cs...)
	}
	for _, c := range fc.LoopDec {
		out = append(out, c)
	}
	for _, cs := range fc.LoopHint {
		out = append(out, cs...)
	}
	out = append(out, fc.Hints...)
	out = append(out, fc.Cas...)
	return out
}

func matchParen(s string, i int) int {
	if i < 0 {
		return -1
	}
	d := 0
	for j := i; j < len(s); j++ {
		switch s[j] {
		case '(':
			d++
		case ')':
			d--
			if d == 0 {
				return j
			}
		}
	}
	return -1
}

func parseFuncKey(fc *FuncContract) error {
	k := strings.TrimSpace(fc.Key)
	if i := strings.LastIndex(k, "$"); i >= 0 {
		n := 0
		if _, err := fmt.Sscanf(k[i+1:], "%d", &n); err != nil || n < 1 {
			return fmt.Errorf("bad function literal ordinal in %q", k)
		}
		fc.Anon = n
		k = k[:i]
	}
	if strings.HasPrefix(k, "(") {
		j := strings.Index(k, ")")
		if j < 0 || j+1 >= len(k) || k[j+1] != '.' {
			return fmt.Errorf("bad func key %q", k)
		}
		r := k[1:j]
		if strings.HasPrefix(r, "*") {
			fc.RecvPtr = true
			r = r[1:]
		}
		fc.Recv = r
		fc.Name = k[j+2:]
		return nil
	}
	if i := strings.Index(k, "."); i >= 0 {
		fc.Recv = k[:i]
		fc.Name = k[i+1:]
		fc.IsIface = true
		return nil
	}
	fc.Name = k
	return nil
}
