package main

// Replay of solver counterexamples on the real code (DESIGN.md §4):
// model -> Go test (inputs with exact lengths/capacities) -> `go test -overlay` on /repo.
// Safety obligations reproduce when the real function panics. For postconditions the observed
// outputs are pinned in the obligation's SMT script together with the model's inputs; if that is
// still satisfiable the real execution violates the clause.

import (
	"bytes"
	"encoding/hex"
	"encoding/json"
	"fmt"
	"go/types"
	"math/big"
	"os"
	"os/exec"
	"path/filepath"
	"strconv"
	"strings"
	"time"

	"golang.org/x/tools/go/ssa"
)

type ReplayInfo struct {
	Inputs   []string `json:"inputs,omitempty"`
	TestSrc  string   `json:"test_source,omitempty"`
	Output   string   `json:"observed_output,omitempty"`
	Verdict  string   `json:"verdict"`
	Cmd      string   `json:"cmd,omitempty"`
	PinCheck string   `json:"pin_check,omitempty"`
	Tried    []string `json:"other_candidates_tried,omitempty"`
}

type goBuilder struct {
	vc          *VC
	m           *Model
	pkg         *types.Package
	imports     map[string]string
	err         string
	cand        int
	substituted bool      // an unnameable interface value was replaced by nil: a panic is then not conclusive
	deadline    time.Time // building the replay input from the model gives up after this (models with large arrays are slow to evaluate)
}

func (g *goBuilder) expired() bool {
	if !g.deadline.IsZero() && time.Now().After(g.deadline) {
		g.fail("building the replay input from the model exceeded its time budget")
		return true
	}
	return false
}

func (g *goBuilder) fail(format string, a ...interface{}) string {
	if g.err == "" {
		g.err = fmt.Sprintf(format, a...)
	}
	return "nil"
}

func (g *goBuilder) typeStr(t types.Type) string {
	return types.TypeString(t, func(p *types.Package) string {
		if p == g.pkg {
			return ""
		}
		g.imports[p.Path()] = p.Name()
		return p.Name()
	})
}

func stripBars(s string) string { return s }

func (g *goBuilder) intLit(s *Sexp) (*big.Int, bool) {
	return g.m.intOf(s, nil)
}

// value builds a Go expression of type t from model value s.
func (g *goBuilder) value(t types.Type, s *Sexp, depth int) string {
	s = g.m.resolve(s)
	if s == nil {
		return g.fail("no model value for a %s", t)
	}
	if depth > 6 {
		return g.fail("value too deep")
	}
	if g.expired() {
		return "nil"
	}
	switch u := t.Underlying().(type) {
	case *types.Basic:
		switch {
		case u.Info()&types.IsInteger != 0:
			n, ok := g.intLit(s)
			if !ok {
				return g.fail("cannot evaluate integer %s", s)
			}
			return fmt.Sprintf("%s(%s)", g.typeStr(t), n.String())
		case u.Info()&types.IsBoolean != 0:
			b, ok := g.m.boolOf(s, nil)
			if !ok {
				return g.fail("cannot evaluate bool %s", s)
			}
			return fmt.Sprintf("%s(%v)", g.typeStr(t), b)
		case u.Info()&types.IsString != 0:
			bs, ok := g.strBytes(s)
			if !ok {
				return g.fail("cannot evaluate string %s", firstN(s.String(), 80))
			}
			return fmt.Sprintf("%s(%s)", g.typeStr(t), strconv.Quote(string(bs)))
		case u.Info()&types.IsFloat != 0:
			// floats are uninterpreted in the encoding: a model only says which float inputs are equal.
			// Distinct abstract values are mapped to distinct concrete numbers (a stand-in; whether the real
			// run violates the obligation is decided afterwards by pinning what the real code returned).
			str := s.String()
			k := 0
			if i := strings.LastIndex(str, "!val!"); i >= 0 {
				fmt.Sscanf(str[i+5:], "%d", &k)
				k++
			}

			return fmt.Sprintf("%s(%d.5)", g.typeStr(t), k)
		}
	case *types.Slice:
		return g.sliceValue(t, u, s, depth)
	case *types.Pointer:
		n, ok := g.intLit(s)
		if !ok {
			return g.fail("cannot evaluate pointer")
		}
		if n.Sign() == 0 {
			return "nil"
		}
		if at, ok := u.Elem().Underlying().(*types.Array); ok {
			_ = at
			return g.fail("pointer to array input")
		}
		name, _ := g.vc.heapName(u.Elem())
		h := g.heapVal(name)
		if h == nil {
			// object never read: zero value
			return fmt.Sprintf("new(%s)", g.typeStr(u.Elem()))
		}
		obj := g.m.selectArr(h, &Sexp{Atom: n.String()}, nil)
		if obj == nil {
			return fmt.Sprintf("new(%s)", g.typeStr(u.Elem()))
		}
		if _, isStruct := u.Elem().Underlying().(*types.Struct); isStruct {
			return "&" + g.value(u.Elem(), obj, depth+1)
		}
		return fmt.Sprintf("func() *%s { v := %s; return &v }()", g.typeStr(u.Elem()), g.value(u.Elem(), obj, depth+1))
	case *types.Struct:
		s = g.m.resolve(s)
		ss := g.vc.S.structOf(t)
		if u.NumFields() == 0 {
			return g.typeStr(t) + "{}"
		}
		if s.isAtom() || len(s.List) != u.NumFields()+1 {
			return g.fail("cannot evaluate struct %s", firstN(s.String(), 80))
		}
		_ = ss
		var fs []string
		for i := 0; i < u.NumFields(); i++ {
			f := u.Field(i)
			if !f.Exported() && f.Pkg() != g.pkg {
				// cannot set: leave zero if the model value is zero-ish, else give up
				continue
			}
			fs = append(fs, fmt.Sprintf("%s: %s", f.Name(), g.value(f.Type(), s.List[i+1], depth+1)))
		}
		return fmt.Sprintf("%s{%s}", g.typeStr(t), strings.Join(fs, ", "))
	case *types.Array:
		if u.Len() > 64 {
			return g.fail("array too large")
		}
		var es []string
		for i := int64(0); i < u.Len(); i++ {
			e := g.m.selectArr(s, &Sexp{Atom: fmt.Sprint(i)}, nil)
			if e == nil {
				return g.fail("cannot evaluate array element")
			}
			es = append(es, g.value(u.Elem(), e, depth+1))
		}
		return fmt.Sprintf("%s{%s}", g.typeStr(t), strings.Join(es, ", "))
	case *types.Interface:
		return g.dynValue(t, s, depth)
	case *types.Map:
		n, ok := g.intLit(s)
		if ok && n.Sign() == 0 {
			return "nil"
		}
		return g.fail("map input")
	case *types.Signature:
		n, ok := g.intLit(s)
		if ok && n.Sign() == 0 {
			return "nil"
		}
		return g.fail("function-valued input")
	}
	return g.fail("unsupported input type %s", t)
}

func firstN(s string, n int) string {
	if len(s) > n {
		return s[:n] + "..."
	}
	return s
}

func (g *goBuilder) strBytes(s *Sexp) ([]byte, bool) {
	s = g.m.resolve(s)
	if s == nil || s.isAtom() || len(s.List) != 4 || s.List[0].Atom != "mkstr" {
		return nil, false
	}
	off, ok1 := g.intLit(s.List[2])
	ln, ok2 := g.intLit(s.List[3])
	if !ok1 || !ok2 || !ln.IsInt64() || ln.Int64() > 1<<12 || ln.Sign() < 0 {
		return nil, false
	}
	out := make([]byte, ln.Int64())
	for i := int64(0); i < ln.Int64(); i++ {
		if i%16 == 0 && g.expired() {
			return nil, false
		}
		idx := new(big.Int).Add(off, big.NewInt(i))
		e := g.m.selectArr(s.List[1], &Sexp{Atom: idx.String()}, nil)
		v, ok := g.m.intOf(e, nil)
		if !ok {
			v = big.NewInt(0)
		}
		out[i] = byte(v.Int64())
	}
	return out, true
}

func (g *goBuilder) sliceValue(t types.Type, u *types.Slice, s *Sexp, depth int) string {
	if s.isAtom() || len(s.List) != 5 || s.List[0].Atom != "mkslice" {
		return g.fail("cannot evaluate slice %s", firstN(s.String(), 60))
	}
	ref, _ := g.intLit(s.List[1])
	off, _ := g.intLit(s.List[2])
	ln, _ := g.intLit(s.List[3])
	cp, _ := g.intLit(s.List[4])
	if ref == nil || off == nil || ln == nil || cp == nil {
		return g.fail("cannot evaluate slice header")
	}
	if ref.Sign() == 0 {
		return "nil"
	}
	if !cp.IsInt64() || cp.Int64() > 1<<16 {
		return g.fail("slice too large to build (cap %s)", cp)
	}
	name, _ := g.vc.memName(u.Elem())
	h := g.heapVal(name)
	var arr *Sexp
	if h != nil {
		arr = g.m.selectArr(h, &Sexp{Atom: ref.String()}, nil)
	}
	if os.Getenv("GVC_DEBUG") != "" {
		fmt.Fprintf(os.Stderr, "sliceValue cand=%d heap=%s versions=%v h=%v arr=%v\n", g.cand, name, g.vc.havocked[name], h != nil, arr)
	}
	ts := g.typeStr(t)
	var sb strings.Builder
	fmt.Fprintf(&sb, "func() %s { s := make(%s, %d, %d); ", ts, ts, ln.Int64(), cp.Int64())
	if arr != nil {
		zero := g.value(u.Elem(), zeroSexp(g.vc, u.Elem()), depth+1)
		full := fmt.Sprintf("s[:%d]", cp.Int64())
		fmt.Fprintf(&sb, "f := %s; _ = f; ", full)
		for i := int64(0); i < cp.Int64(); i++ {
			idx := new(big.Int).Add(off, big.NewInt(i))
			e := g.m.selectArr(arr, &Sexp{Atom: idx.String()}, nil)
			if e == nil {
				continue
			}
			v := g.value(u.Elem(), e, depth+1)
			if v != zero {
				fmt.Fprintf(&sb, "f[%d] = %s; ", i, v)
			}
		}
	}
	sb.WriteString("return s }()")
	return sb.String()
}

func zeroSexp(vc *VC, t types.Type) *Sexp {
	ss := parseSexps(vc.S.zero(t))
	if len(ss) > 0 {
		return ss[0]
	}
	return &Sexp{Atom: "0"}
}

func (g *goBuilder) dynValue(t types.Type, s *Sexp, depth int) string {
	if s.isAtom() {
		if s.Atom == "dnil" {
			return "nil"
		}
		return g.fail("cannot evaluate interface value %s", s.Atom)
	}
	head := s.List[0].Atom
	if head == "dother" {
		// a non-nil value of a dynamic type the encoding does not name: use a harmless stand-in
		if n, ok := t.(*types.Named); ok && n.Obj().Pkg() != nil && n.Obj().Pkg().Path() == "context" && n.Obj().Name() == "Context" {
			g.imports["context"] = "context"
			return "context.Background()"
		}
		g.substituted = true
		return "nil"
	}
	for _, c := range g.vc.S.dyn {
		if c.ctor == head {
			if it, ok := t.Underlying().(*types.Interface); ok && !types.Implements(c.typ, it) {
				return g.fail("model puts %s into %s", c.typ, t)
			}
			return g.value(c.typ, s.List[1], depth+1)
		}
	}
	return g.fail("unknown Dyn constructor %s", head)
}

// ---------------------------------------------------------------------------

func replayOnce(P *Program, r *Result, cand int) (note, suffix string) {
	info := &ReplayInfo{}
	r.Replay = info
	if r.Status != "sat" {
		info.Verdict = "no model: solver answered " + r.Status
		return "undischarged obligation (no counterexample): " + firstLines(r.Output, 4), "no-failing-input-found"
	}
	vc := r.vc
	if vc == nil || vc.fn == nil || vc.fi == nil {
		info.Verdict = "model is over spec functions only; nothing to run"
		return "lemma refuted by the solver; counter-model in solver_output", "no-failing-input-found"
	}
	m := parseModel(r.Model)
	fn := vc.fn
	g := &goBuilder{vc: vc, m: m, pkg: fn.Pkg.Pkg, imports: map[string]string{}, cand: cand, deadline: time.Now().Add(20 * time.Second)}
	var args []string
	var instNames []string
	var instType string
	fuzzed := false
	for _, p := range fn.Params {
		v := vc.vals[p]
		var expr string
		if names := P.tableInstances(fn.Pkg.Pkg.Path(), p.Type()); len(names) > 0 && len(instNames) == 0 {
			// a table type (constructed only in package initialisers): try every real instance
			instNames, instType = names, g.typeStr(p.Type())
			args = append(args, "verifInst")
			info.Inputs = append(info.Inputs, fmt.Sprintf("%s = each of the %d package-level instances of %s", p.Name(), len(names), instType))
			continue
		}
		if cand == -1 && isByteSeq(p.Type()) {
			// contents the model leaves unconstrained are concretised by a small pattern set
			fuzzed = true
			if isString(p.Type()) {
				expr = fmt.Sprintf("%s(verifFuzz)", g.typeStr(p.Type()))
			} else {
				expr = fmt.Sprintf("%s(append([]byte(nil), verifFuzz...)[:len(verifFuzz):len(verifFuzz)])", g.typeStr(p.Type()))
			}
			args = append(args, expr)
			info.Inputs = append(info.Inputs, fmt.Sprintf("%s = byte patterns of length 1..6 (the model leaves the contents unconstrained)", p.Name()))
			continue
		}
		if v.lv != nil || v.tuple != nil {
			expr = g.fail("parameter %s has no simple model value", p.Name())
		} else {
			ms := m.get(v.t)
			if cand >= 1 {
				// loop-cut counterexample: the state at the loop head stands in for the input
				if t := vc.paramPhiTerm(p); t != "" && m.get(t) != nil {
					ms = m.get(t)
				}
			}
			if ms == nil {
				// unconstrained by the model: zero value
				ms = zeroSexp(vc, p.Type())
			}
			expr = g.value(p.Type(), ms, 0)
		}
		args = append(args, expr)
		info.Inputs = append(info.Inputs, fmt.Sprintf("%s = %s", p.Name(), firstN(expr, 400)))
	}
	if g.err != "" {
		info.Verdict = "counterexample found by the solver but inputs could not be built as Go values: " + g.err
		return info.Verdict, "no-failing-input-found"
	}
	// the call
	var call string
	nres := fn.Signature.Results().Len()
	recv := fn.Signature.Recv()
	if recv != nil {
		call = fmt.Sprintf("(%s).%s(%s)", args[0], fn.Name(), strings.Join(args[1:], ", "))
	} else {
		call = fmt.Sprintf("%s(%s)", fn.Name(), strings.Join(args, ", "))
	}
	var sb strings.Builder
	fmt.Fprintf(&sb, "package %s\n\nimport (\n\t\"fmt\"\n\t\"testing\"\n", fn.Pkg.Pkg.Name())
	for path, name := range g.imports {
		if path != "fmt" && path != "testing" {
			fmt.Fprintf(&sb, "\t%s %q\n", name, path)
		}
	}
	sb.WriteString(")\n\nfunc verifShow(i string, v interface{}) {\n\tswitch x := v.(type) {\n\tcase nil:\n\t\tfmt.Printf(\"VERIF-RET %s nil\\n\", i)\n")
	sb.WriteString("\tcase int, int8, int16, int32, int64, uint, uint8, uint16, uint32, uint64:\n\t\tfmt.Printf(\"VERIF-RET %s int %T %d\\n\", i, x, x)\n")
	sb.WriteString("\tcase bool:\n\t\tfmt.Printf(\"VERIF-RET %s bool %v\\n\", i, x)\n\tcase string:\n\t\tfmt.Printf(\"VERIF-RET %s str %x\\n\", i, x)\n")
	sb.WriteString("\tcase []byte:\n\t\tif x == nil {\n\t\t\tfmt.Printf(\"VERIF-RET %s bytes nil\\n\", i)\n\t\t} else {\n\t\t\tfmt.Printf(\"VERIF-RET %s bytes %d %d %x\\n\", i, len(x), cap(x), x)\n\t\t}\n")
	sb.WriteString("\tcase error:\n\t\tfmt.Printf(\"VERIF-RET %s err %q\\n\", i, x.Error())\n\tdefault:\n\t\tfmt.Printf(\"VERIF-RET %s other %T %v\\n\", i, x, x)\n\t}\n}\n\n")
	sb.WriteString("func verifFuzzSet() [][]byte {\n\tvar out [][]byte\n\tfor _, b := range []byte{0xC3, 0xFF, 0xE2, 0xF0, 0x5C, 0x22, 0x80, 0x00} {\n\t\tfor n := 1; n <= 6; n++ {\n\t\t\tx := make([]byte, n)\n\t\t\tfor i := range x {\n\t\t\t\tx[i] = b\n\t\t\t}\n\t\t\tout = append(out, x)\n\t\t\ty := append([]byte(\"ab\"), x...)\n\t\t\tout = append(out, y)\n\t\t}\n\t}\n\t// length-prefixed formats: a small element count (little and big endian) in front of too few bytes\n\tfor _, n := range []int{12, 24, 36, 40, 64, 100} {\n\t\tfor _, c := range []byte{1, 3, 5, 9} {\n\t\t\tx := make([]byte, n)\n\t\t\tx[0] = c\n\t\t\tout = append(out, x)\n\t\t\ty := make([]byte, n)\n\t\t\ty[3] = c\n\t\t\tout = append(out, y)\n\t\t\tz := make([]byte, n)\n\t\t\tz[0], z[4] = c, c\n\t\t\tout = append(out, z)\n\t\t}\n\t}\n\treturn out\n}\n\n")
	sb.WriteString("func TestVerifReplay(t *testing.T) {\n\tverifPanics := 0\n")
	if fuzzed {
		sb.WriteString("\tfor _, verifFuzz := range verifFuzzSet() {\n")
	} else {
		sb.WriteString("\tfor _, verifFuzz := range [][]byte{nil} {\n")
	}
	if len(instNames) > 0 {
		fmt.Fprintf(&sb, "\tnames := []string{\"%s\"}\n\tfor k, verifAny := range []interface{}{%s} {\n\t\tverifInst, ok := verifAny.(%s)\n\t\tif !ok {\n\t\t\tcontinue\n\t\t}\n\t\tverifCtx := \"instance \" + names[k]\n",
			strings.Join(instNames, "\", \""), strings.Join(instNames, ", "), instType)
	} else {
		sb.WriteString("\tfor range []int{0} {\n\t\tverifCtx := \"\"\n")
	}
	sb.WriteString("\t\tfunc() {\n\tdefer func() {\n\t\tif r := recover(); r != nil {\n\t\t\tverifPanics++\n\t\t\tif verifPanics <= 3 {\n\t\t\t\tfmt.Printf(\"VERIF-PANIC: %s input=%x: %v\\n\", verifCtx, verifFuzz, r)\n\t\t\t}\n\t\t}\n\t}()\n")
	if nres == 0 {
		fmt.Fprintf(&sb, "\t%s\n", call)
	} else {
		var rs []string
		for i := 0; i < nres; i++ {
			rs = append(rs, fmt.Sprintf("r%d", i))
		}
		fmt.Fprintf(&sb, "\t%s := %s\n", strings.Join(rs, ", "), call)
		for i := 0; i < nres; i++ {
			rt := fn.Signature.Results().At(i).Type()
			if st, ok := rt.Underlying().(*types.Struct); ok {
				for k := 0; k < st.NumFields(); k++ {
					if st.Field(k).Exported() || st.Field(k).Pkg() == fn.Pkg.Pkg {
						fmt.Fprintf(&sb, "\tverifShow(\"%d.%d\", r%d.%s)\n", i, k, i, st.Field(k).Name())
					}
				}
			} else {
				fmt.Fprintf(&sb, "\tverifShow(\"%d\", r%d)\n", i, i)
			}
		}
	}
	sb.WriteString("\t\t}()\n\t}\n\t}\n")
	sb.WriteString("\tfmt.Println(\"VERIF-DONE\")\n}\n")
	info.TestSrc = sb.String()
	out, cmd, err := runReplayTest(P, fn.Pkg.Pkg.Path(), sb.String())
	info.Cmd = cmd
	info.Output = firstLines(filterVerifLines(out), 40)
	if err != nil && !strings.Contains(out, "VERIF-") {
		info.Verdict = "replay test did not run: " + firstLines(out, 8)
		return info.Verdict, "no-failing-input-found"
	}
	panicked := strings.Contains(out, "VERIF-PANIC:")
	if panicked && g.substituted {
		info.Verdict = "the replay panicked, but an interface input the model could not name was replaced by nil, so the panic is not conclusive"
		return info.Verdict, "no-failing-input-found"
	}
	if strings.HasPrefix(r.Class, "safe:") {
		if panicked {
			info.Verdict = "reproduced: the real function panics on the solver's input"
			return info.Verdict, ""
		}
		info.Verdict = "the real function does not panic on the solver's input (abstraction too coarse, or the panic needs state the replay cannot build)"
		return info.Verdict, "no-failing-input-found"
	}
	if panicked {
		// a panic is not what a non-safety obligation is about, and it may come from an input the harness
		// could only build in part (elements of pointer or interface type are left nil): not a reproduction
		info.Verdict = "the real function panics on the input the replay could build from the solver's model; for an obligation of class " + r.Class + " that is not a reproduction (elements the model leaves open are nil in the replay)"
		return info.Verdict, "no-failing-input-found"
	}
	if r.Class != "ensures" || r.ev == nil || r.ev.RetVals == nil || len(instNames) > 0 {
		info.Verdict = "ran without panic; obligation class " + r.Class + " is not observable from the outputs"
		return info.Verdict, "no-failing-input-found"
	}
	// pin inputs (model) and outputs (observed) into the obligation script
	pins, perr := pinTerms(vc, m, r, out)
	if perr != "" {
		info.Verdict = "ran; outputs could not be pinned: " + perr
		return info.Verdict, "no-failing-input-found"
	}
	script := strings.Replace(r.Script, "(check-sat)\n(get-model)\n", strings.Join(pins, "\n")+"\n(check-sat)\n", 1)
	dir, _ := os.MkdirTemp("", "gvc-pin-")
	defer os.RemoveAll(dir)
	file := filepath.Join(dir, "pin.smt2")
	os.WriteFile(file, []byte(script), 0644)
	st, sout, _ := runSolver(solvers[0], file, 20)
	if st != "sat" && st != "unsat" {
		st2, sout2, _ := runSolver(solvers[2], file, 20)
		if st2 == "sat" || st2 == "unsat" {
			st, sout = st2, sout2
		}
	}
	if st == "error" {
		info.PinCheck = "error: " + firstLines(sout, 3)
		if os.Getenv("GVC_DEBUG") != "" {
			os.WriteFile("/tmp/gvc-pin-debug.smt2", []byte(script), 0644)
		}
	}
	info.PinCheck = st
	switch st {
	case "sat":
		info.Verdict = "reproduced: with the solver's inputs the real function returns outputs that make the clause false"
		return info.Verdict, ""
	case "unsat":
		info.Verdict = "the real outputs satisfy the clause on the solver's input (spurious model: abstraction too coarse)"
		return info.Verdict, "no-failing-input-found"
	}
	info.Verdict = "pinned query undecided (" + st + ")"
	return info.Verdict, "no-failing-input-found"
}

func filterVerifLines(out string) string {
	var ls []string
	for _, l := range strings.Split(out, "\n") {
		if strings.Contains(l, "VERIF-") || strings.Contains(l, "panic") || strings.HasPrefix(l, "FAIL") || strings.HasPrefix(l, "ok") {
			ls = append(ls, l)
		}
	}
	return strings.Join(ls, "\n")
}

func runReplayTest(P *Program, pkgPath, src string) (string, string, error) {
	dir, err := os.MkdirTemp("", "gvc-replay-")
	if err != nil {
		return "", "", err
	}
	defer os.RemoveAll(dir)
	return runTestIn(dir, pkgPath, map[string]string{"zz_verif_replay_test.go": src}, "^TestVerifReplay$")
}

// runTestIn injects test files into a package of /repo through `go test -overlay` (nothing is
// written into /repo) and runs the selected test.
func runTestIn(dir, pkgPath string, files map[string]string, run string) (string, string, error) {
	rel := strings.TrimPrefix(strings.TrimPrefix(pkgPath, modPath), "/")
	repl := map[string]string{}
	for name, src := range files {
		f := filepath.Join(dir, name)
		os.WriteFile(f, []byte(src), 0644)
		repl[filepath.Join(repoDir, rel, name)] = f
	}
	srid := filepath.Join(repoDir, "sql/types/spatial_reference_systems.go")
	if st, err := os.Stat(srid); err == nil && st.Size() == 0 {
		repl[srid] = filepath.Join(verifDir, "stubs/spatial_reference_systems.go")
	}
	ov, _ := json.Marshal(map[string]interface{}{"Replace": repl})
	ovFile := filepath.Join(dir, "ov.json")
	os.WriteFile(ovFile, ov, 0644)
	target := "./" + rel
	if rel == "" {
		target = "."
	}
	args := []string{"test", "-overlay", ovFile, "-vet=off", "-count=1", "-timeout", "120s", "-run", run, "-v", target}
	cmd := exec.Command("go", args...)
	cmd.Dir = repoDir
	cmd.Env = append(os.Environ(), "GOFLAGS=-mod=mod", "GOPROXY=off")
	var buf bytes.Buffer
	cmd.Stdout = &buf
	cmd.Stderr = &buf
	err := cmd.Run()
	return buf.String(), "cd " + repoDir + " && go " + strings.Join(args, " "), err
}

// pinTerms: equalities fixing the function inputs to the model and the outputs to what was observed.
func pinTerms(vc *VC, m *Model, r *Result, out string) ([]string, string) {
	var pins []string
	// inputs: parameters, initial heaps, globals
	pin := func(name string) {
		if v := m.get(name); v != nil {
			s := v.String()
			if strings.Contains(s, "lambda") || strings.Contains(s, "as-array") || strings.Contains(s, "!val!") {
				return
			}
			pins = append(pins, fmt.Sprintf("(assert (= %s %s))", name, s))
		}
	}
	for _, p := range vc.fn.Params {
		if v := vc.vals[p]; v.t != "" {
			pin(v.t)
		}
	}
	for name := range vc.heapSort {
		pin(sym(name + "@0"))
	}
	for d := range vc.declSet {
		if strings.HasPrefix(strings.Trim(d, "|"), "G_") {
			pin(d)
		}
	}
	// outputs
	rv := r.ev.RetVals
	for _, l := range strings.Split(out, "\n") {
		l = strings.TrimSpace(l)
		if !strings.HasPrefix(l, "VERIF-RET ") {
			continue
		}
		f := strings.Fields(l)
		if len(f) < 3 {
			continue
		}
		idx := f[1]
		var term Term
		var typ types.Type
		if i := strings.Index(idx, "."); i >= 0 {
			ri, _ := strconv.Atoi(idx[:i])
			fk, _ := strconv.Atoi(idx[i+1:])
			if ri >= len(rv) {
				continue
			}
			st := rv[ri].typ.Underlying().(*types.Struct)
			ss := vc.S.structOf(rv[ri].typ)
			term = app(ss.fields[fk], rv[ri].t)
			typ = st.Field(fk).Type()
		} else {
			ri, _ := strconv.Atoi(idx)
			if ri >= len(rv) {
				continue
			}
			term, typ = vc.asTerm(rv[ri]), rv[ri].typ
		}
		pins = append(pins, pinValue(vc, term, typ, f[2:])...)
	}
	return pins, ""
}

func pinValue(vc *VC, term Term, typ types.Type, f []string) []string {
	var out []string
	dyn := isInterface(typ)
	switch f[0] {
	case "nil":
		if dyn {
			out = append(out, fmt.Sprintf("(assert ((_ is dnil) %s))", term))
		}
	case "int":
		n, ok := new(big.Int).SetString(f[2], 10)
		if !ok {
			return nil
		}
		if dyn {
			if c := findBox(vc, f[1]); c != nil {
				out = append(out, fmt.Sprintf("(assert (= %s (%s %s)))", term, c.ctor, bigNum(n)))
			} else {
				out = append(out, fmt.Sprintf("(assert (not ((_ is dnil) %s)))", term))
				for _, c := range vc.S.dyn {
					out = append(out, fmt.Sprintf("(assert (not ((_ is %s) %s)))", c.ctor, term))
				}
			}
		} else {
			out = append(out, fmt.Sprintf("(assert (= %s %s))", term, bigNum(n)))
		}
	case "bool":
		if dyn {
			if c := findBox(vc, "bool"); c != nil {
				out = append(out, fmt.Sprintf("(assert (= %s (%s %s)))", term, c.ctor, f[1]))
			}
		} else {
			out = append(out, fmt.Sprintf("(assert (= %s %s))", term, f[1]))
		}
	case "str":
		bs := []byte{}
		if len(f) > 1 {
			bs, _ = hex.DecodeString(f[1])
		}
		t := term
		if dyn {
			c := findBox(vc, "string")
			if c == nil {
				return []string{fmt.Sprintf("(assert (not ((_ is dnil) %s)))", term)}
			}
			out = append(out, fmt.Sprintf("(assert ((_ is %s) %s))", c.ctor, term))
			t = app(c.acc, term)
		}
		out = append(out, fmt.Sprintf("(assert (= (st.len %s) %d))", t, len(bs)))
		for i, b := range bs {
			if i >= 256 {
				break
			}
			out = append(out, fmt.Sprintf("(assert (= %s %d))", strAt(t, num(int64(i))), b))
		}
	case "bytes":
		if dyn {
			return nil
		}
		if f[1] == "nil" {
			out = append(out, fmt.Sprintf("(assert (= (s.ref %s) 0))", term), fmt.Sprintf("(assert (= (s.len %s) 0))", term))
		} else {
			out = append(out, fmt.Sprintf("(assert (= (s.len %s) %s))", term, f[1]), fmt.Sprintf("(assert (= (s.cap %s) %s))", term, f[2]),
				fmt.Sprintf("(assert (not (= (s.ref %s) 0)))", term))
		}
	case "err", "other":
		if dyn {
			out = append(out, fmt.Sprintf("(assert (not ((_ is dnil) %s)))", term))
			if f[0] == "other" && len(f) > 1 {
				if c := findBox(vc, f[1]); c != nil {
					out = append(out, fmt.Sprintf("(assert ((_ is %s) %s))", c.ctor, term))
				}
			}
		}
	}
	return out
}

func findBox(vc *VC, goType string) *dynCtor {
	for _, c := range vc.S.dyn {
		if types.TypeString(c.typ, nil) == goType {
			return c
		}
	}
	return nil
}

var _ ssa.Value
