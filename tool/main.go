package main

import (
	"flag"
	"fmt"
	"go/types"
	"os"
	"path/filepath"
	"runtime/debug"
	"sort"
	"strings"

	"golang.org/x/tools/go/ssa"
)

func main() {
	if len(os.Args) < 2 {
		fmt.Fprintln(os.Stderr, "usage: gvc dev|check|replay ...")
		os.Exit(2)
	}
	if d := os.Getenv("GVC_REPO"); d != "" {
		if filepath.Clean(d) != filepath.Clean(repoDir) && os.Getenv("GVC_EVIDENCE_DIR") == "" {
			// a run against a scratch copy never rewrites the evidence of the real tree
			os.Setenv("GVC_EVIDENCE_DIR", filepath.Join(filepath.Dir(filepath.Clean(d)), "gvc-scratch-evidence"))
		}
		repoDir = d
	}
	if d := os.Getenv("GVC_VERIF"); d != "" {
		verifDir = d
	}
	switch os.Args[1] {
	case "dev":
		devCmd(os.Args[2:])
	case "check":
		checkCmd(os.Args[2:])
	case "replay":
		replayCmd(os.Args[2:])
	case "sugar":
		s, err := rewriteSugar(strings.Join(os.Args[2:], " "))
		fmt.Println(s, err)
	default:
		fmt.Fprintln(os.Stderr, "unknown command")
		os.Exit(2)
	}
}

// verifyFunc runs the VC generator on one function; returns results (unsolved) or an error text.
func verifyFunc(P *Program, fi *FuncInfo, fn *ssa.Function) (vc *VC, rs []*Result, errText string) {
	// pass 1: discover every heap the function or its contracts touch, so that havoc
	// (unknown calls, loop headers) in pass 2 covers heaps first used later on.
	hs := map[string]string{}
	if os.Getenv("GVC_SSA") != "" {
		fn.WriteTo(os.Stderr)
	}
	func() {
		defer func() { recover() }()
		d := newVC(P, fi, fn)
		d.heapSort = hs
		if fi != nil {
			d.nosafety = fi.fc.NoSafety
		}
		d.run()
	}()
	vc = newVC(P, fi, fn)
	for k, v := range hs {
		vc.heapSort[k] = v
	}
	if fi != nil && (fi.fc.NoSafety || fi.fc.MayPanic) {
		vc.nosafety = fi.fc.NoSafety
	}
	if fi != nil && fi.fc.NoSafety {
		vc.assume("nosafety: no crash-freedom obligations (nil, index, slice, type assertion, division) are generated for " + fi.qname() + "; its contract is functional only and assumes the calls in its body return normally")
	}
	defer func() {
		if r := recover(); r != nil {
			if u, ok := r.(unsupported); ok {
				errText = u.msg
				return
			}
			errText = fmt.Sprintf("internal error: %v\n%s", r, debug.Stack())
		}
	}()
	vc.run()
	rs = vc.obligations()
	if fi != nil && fi.fc.Timeout > 0 {
		for _, r := range rs {
			r.Timeout = fi.fc.Timeout
		}
	}
	return
}

func devCmd(args []string) {
	fs := flag.NewFlagSet("dev", flag.ExitOnError)
	sec := fs.Int("t", 10, "solver timeout (s)")
	dump := fs.String("dump", "", "dump script of obligation whose name contains this")
	all := fs.Bool("all", false, "sweep all functions of the package, not only those under contract")
	verbose := fs.Bool("v", false, "verbose")
	fs.Parse(args)
	rest := fs.Args()
	if len(rest) < 1 {
		fmt.Fprintln(os.Stderr, "usage: gvc dev [-t s] [-dump name] pkgdir [funcSubstring]")
		os.Exit(2)
	}
	P, err := loadProgram([]string{rest[0]})
	if err != nil {
		fmt.Fprintln(os.Stderr, "load:", err)
		os.Exit(2)
	}
	filter := ""
	if len(rest) > 1 {
		filter = rest[1]
	}
	ip := relDirToImport(repoDir + "/" + rest[0])
	type job struct {
		fi *FuncInfo
		fn *ssa.Function
	}
	var jobs []job
	if *all {
		sp := P.ssaPkgs[ip]
		var fns []*ssa.Function
		for _, m := range sp.Members {
			if f, ok := m.(*ssa.Function); ok {
				fns = append(fns, f)
			}
		}
		for f := range allMethods(P, sp) {
			fns = append(fns, f)
		}
		sort.Slice(fns, func(i, j int) bool { return fns[i].String() < fns[j].String() })
		for _, f := range fns {
			if f.Blocks == nil || strings.HasPrefix(f.Name(), "verif_") || strings.HasPrefix(f.Name(), "init") {
				continue
			}
			if filter != "" && !strings.Contains(f.String(), filter) {
				continue
			}
			jobs = append(jobs, job{P.byFn[f], f})
		}
	} else {
		var keys []string
		for k := range P.funcs {
			keys = append(keys, k)
		}
		sort.Strings(keys)
		for _, k := range keys {
			fi := P.funcs[k]
			if !strings.HasPrefix(k, ip+".") || (filter != "" && !strings.Contains(k, filter)) {
				continue
			}
			if fi.missing != "" {
				fmt.Printf("MISSING %s: %s\n", k, fi.missing)
				continue
			}
			if fi.fn == nil || fi.fc.Trusted {
				continue
			}
			jobs = append(jobs, job{fi, fi.fn})
		}
	}
	var allRs []*Result
	for _, j := range jobs {
		vc, rs, errText := verifyFunc(P, j.fi, j.fn)
		if errText != "" {
			fmt.Printf("UNSUPPORTED %s: %s\n", j.fn.String(), errText)
			continue
		}
		if *verbose {
			var as []string
			for a := range vc.assumed {
				as = append(as, a)
			}
			sort.Strings(as)
			for _, a := range as {
				fmt.Printf("  assume: %s\n", a)
			}
		}
		allRs = append(allRs, rs...)
	}
	if os.Getenv("GVC_NOSOLVE") == "" {
		solveAll(allRs, *sec, false, 8)
	}
	nOK := 0
	for _, r := range allRs {
		if r.Status == "unsat" {
			nOK++
			if *verbose {
				fmt.Printf("ok   %-70s %s %dms\n", r.Name, r.Solver, r.Ms)
			}
		} else {
			fmt.Printf("FAIL %-70s %s [%s] %s  %dms\n     %s\n", r.Name, r.Status, r.Solver, r.Pos, r.Ms, r.Construct)
			if r.Status != "sat" {
				fmt.Printf("     %s\n", r.Output)
			}
		}
		if d := os.Getenv("GVC_DUMPDIR"); d != "" {
			// every script, one file per obligation (used to check that script generation is deterministic)
			os.MkdirAll(d, 0755)
			os.WriteFile(filepath.Join(d, strings.NewReplacer("/", "_", " ", "_").Replace(r.Name)+".smt2"), []byte(r.Script), 0644)
		}
		if *dump != "" && strings.Contains(r.Name, *dump) {
			os.WriteFile("/tmp/gvc-dump.smt2", []byte(r.Script), 0644)
			fmt.Println("     script dumped to /tmp/gvc-dump.smt2")
			if r.Status == "sat" {
				fmt.Println(firstLines(r.Model, 60))
			}
		}
	}
	fmt.Printf("%d obligations, %d discharged\n", len(allRs), nOK)
}

func allMethods(P *Program, sp *ssa.Package) map[*ssa.Function]bool {
	out := map[*ssa.Function]bool{}
	for _, m := range sp.Members {
		if t, ok := m.(*ssa.Type); ok {
			for _, ty := range typesOf(t) {
				ms := P.prog.MethodSets.MethodSet(ty)
				for i := 0; i < ms.Len(); i++ {
					if f := P.prog.MethodValue(ms.At(i)); f != nil && f.Pkg == sp && f.Synthetic == "" {
						out[f] = true
					}
				}
			}
		}
	}
	return out
}


func typesOf(t *ssa.Type) []types.Type {
	return []types.Type{t.Type(), types.NewPointer(t.Type())}
}
