package main

// Deterministic external functions: library functions and methods whose result is a function of
// their (value) arguments and that neither modify memory visible to the caller nor panic. A call
// is translated to an application of one uninterpreted function per callee, in code and in
// contracts alike, so that two calls with equal arguments give equal results and a contract can
// talk about `t.Year()` or `time.Date(...)`. Nothing else is assumed about their values.

import (
	"go/ast"
	"go/types"
	"strings"
)

var detStdlib = map[string]bool{
	"time.Date": true, "strconv.Itoa": true, "strings.ToLower": true, "strings.ToUpper": true,
	"(time.Time).Year": true, "(time.Time).Month": true, "(time.Time).Day": true, "(time.Time).Hour": true,
	"(time.Time).Minute": true, "(time.Time).Second": true, "(time.Time).Nanosecond": true, "(time.Time).Location": true,
	"(time.Time).AddDate": true, "(time.Time).Add": true, "(time.Time).Weekday": true, "(time.Time).YearDay": true,
	"(time.Time).Unix": true, "(time.Time).UnixMicro": true, "(time.Time).UTC": true,
}

func detName(name string) string {
	r := strings.NewReplacer("(", "", ")", "", "*", "ptr.", "/", ".", " ", "")
	return "ext." + r.Replace(name)
}

// detApply builds the uninterpreted application for a deterministic external callee.
func (vc *VC) detApply(name string, args []Val, rt types.Type) Val {
	var sorts []string
	var ts []Term
	for _, a := range args {
		sorts = append(sorts, vc.S.sortOf(a.typ))
		ts = append(ts, vc.asTerm(a))
	}
	f := vc.declareFun(sym(detName(name)), sorts, vc.S.sortOf(rt))
	vc.assume("assumed deterministic, total and free of side effects (external): " + name)
	var r Term
	if len(ts) == 0 {
		r = f
	} else {
		r = app(f, ts...)
	}
	if !vc.noDefine {
		vc.addAssume("true", vc.typeFacts(nil, rt, r, 0))
	}
	return Val{t: r, typ: rt}
}

// detCallee resolves a call expression in a contract to a deterministic external callee.
func (ex *exprTr) detCallee(x *ast.CallExpr) (string, []ast.Expr, bool) {
	sel, ok := x.Fun.(*ast.SelectorExpr)
	if !ok {
		return "", nil, false
	}
	fo, ok := ex.info.Uses[sel.Sel].(*types.Func)
	if !ok || fo.Pkg() == nil || strings.HasPrefix(fo.Pkg().Path(), modPath) {
		return "", nil, false
	}
	name := fo.FullName()
	if !detStdlib[name] {
		return "", nil, false
	}
	sig := fo.Type().(*types.Signature)
	var args []ast.Expr
	if sig.Recv() != nil {
		args = append(args, sel.X)
	}
	args = append(args, x.Args...)
	return name, args, true
}
