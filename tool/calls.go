package main

import (
	"fmt"
	"go/token"
	"go/types"
	"os"
	"strings"

	"golang.org/x/tools/go/ssa"
)

// pureStdlib: external functions assumed to have no effect on memory visible to the caller
// and to return normally (no panic) for all inputs. Listed in evidence as assumptions when used.
var pureStdlib = map[string]bool{
	"fmt.Errorf": true, "fmt.Sprintf": true, "fmt.Sprint": true, "errors.New": true, "errors.Is": true,
	"unicode/utf8.DecodeRune": true, "unicode/utf8.DecodeRuneInString": true, "unicode/utf8.RuneLen": true,
	"unicode/utf8.ValidString": true, "unicode/utf8.Valid": true, "unicode/utf8.RuneCountInString": true,
	"unicode/utf8.DecodeLastRuneInString": true, "unicode/utf8.DecodeLastRune": true, "unicode/utf8.ValidRune": true,
	"strconv.Itoa": true, "strconv.FormatInt": true, "strconv.FormatUint": true, "strconv.ParseInt": true, "strconv.ParseUint": true,
	"strconv.ParseFloat": true, "strconv.Atoi": true, "strconv.FormatFloat": true, "strconv.Quote": true,
	"strings.Join": true, "strings.ToLower": true, "strings.ToUpper": true, "strings.HasPrefix": true, "strings.HasSuffix": true,
	"strings.TrimSpace": true, "strings.Trim": true, "strings.Index": true, "strings.Contains": true, "strings.EqualFold": true,
	"strings.Split": true, "strings.Repeat": true, "strings.Compare": true, "strings.TrimLeft": true, "strings.TrimRight": true,
	"strings.IndexByte": true, "strings.Fields": true, "strings.Replace": true, "strings.ReplaceAll": true, "strings.TrimPrefix": true, "strings.TrimSuffix": true,
	"bytes.Equal": true, "bytes.Compare": true, "bytes.NewReader": true, "bytes.HasPrefix": true,
	"encoding/hex.DecodeString": true, "encoding/hex.EncodeToString": true,
	"math.Abs": true, "math.Floor": true, "math.Ceil": true, "math.Round": true, "math.Trunc": true, "math.IsNaN": true, "math.IsInf": true,
	"math.Float64bits": true, "math.Float64frombits": true, "math.Float32bits": true, "math.Float32frombits": true, "math.Pow": true, "math.Mod": true,
	"math.RoundToEven": true, "math.Inf": true, "math.NaN": true, "math.Signbit": true, "math.Sqrt": true, "math.Log10": true,
	"github.com/sirupsen/logrus.Infof": true, "github.com/sirupsen/logrus.Errorf": true, "github.com/sirupsen/logrus.Warnf": true, "github.com/sirupsen/logrus.Debugf": true,
	"runtime/debug.Stack": true, "runtime/trace.StartRegion": true, "(*runtime/trace.Region).End": true,
	"unicode.IsDigit": true, "unicode.IsLetter": true, "unicode.IsSpace": true, "unicode.IsUpper": true, "unicode.IsLower": true,
	"unicode.ToLower": true, "unicode.ToUpper": true, "unicode.IsPunct": true, "unicode.IsNumber": true, "unicode.IsControl": true, "unicode.IsPrint": true,
	"encoding/binary.littleEndian.Uint32": true, "encoding/binary.littleEndian.Uint64": true,
	"crypto/sha1.Sum": true,
	"time.Now": true,
	"(*sync.Pool).Get": true, "(*sync.Pool).Put": true,
	"(*gopkg.in/src-d/go-errors.v1.Kind).New": true, "gopkg.in/src-d/go-errors.v1.NewKind": true, "(*gopkg.in/src-d/go-errors.v1.Kind).Is": true, "gopkg.in/src-d/go-errors.v1.Is": true,
	"(time.Duration).String": true, "(time.Duration).Seconds": true, "(time.Time).Sub": true, "time.Since": true, "(time.Time).Unix": true, "(time.Time).UnixMicro": true, "(time.Time).Hour": true, "(time.Time).Minute": true,
	"(time.Time).Second": true, "(time.Time).Nanosecond": true, "(time.Time).IsZero": true, "(time.Time).Equal": true, "(time.Time).Before": true, "(time.Time).After": true,
	"(*github.com/cockroachdb/apd/v3.Decimal).Cmp": true, "(*github.com/cockroachdb/apd/v3.Decimal).String": true, "(*github.com/cockroachdb/apd/v3.Decimal).Text": true,
	"(github.com/shopspring/decimal.Decimal).String": true, "(github.com/shopspring/decimal.Decimal).Cmp": true,
	"(github.com/shopspring/decimal.Decimal).IntPart": true, "(github.com/shopspring/decimal.Decimal).Equal": true,
	"github.com/shopspring/decimal.NewFromInt": true, "github.com/shopspring/decimal.NewFromFloat": true, "github.com/shopspring/decimal.NewFromString": true,
	"reflect.TypeOf": true, "reflect.ValueOf": true,
	"github.com/dolthub/vitess/go/mysql.NewSQLError": true,
}

// nonNilResult: assumed contracts "result is never nil"
var nonNilResult = map[string]bool{
	"fmt.Errorf": true, "errors.New": true, "(*gopkg.in/src-d/go-errors.v1.Kind).New": true, "gopkg.in/src-d/go-errors.v1.NewKind": true,
	"github.com/dolthub/vitess/go/mysql.NewSQLError": true,
}

func calleeName(f *ssa.Function) string {
	if f == nil {
		return ""
	}
	s := f.String()
	if o := f.Origin(); o != nil {
		s = o.String()
	}
	return s
}

func (vc *VC) callModifies(c *ssa.CallCommon, mod map[string]bool) {
	if bi, ok := c.Value.(*ssa.Builtin); ok {
		switch bi.Name() {
		case "append":
			mod["alloc"] = true
			n, _ := vc.memName(c.Args[0].Type().Underlying().(*types.Slice).Elem())
			mod[n] = true
		case "copy":
			n, _ := vc.memName(c.Args[0].Type().Underlying().(*types.Slice).Elem())
			mod[n] = true
		case "delete", "clear":
			if mt, ok := c.Args[0].Type().Underlying().(*types.Map); ok {
				n, _, _ := vc.mapHeapName(mt)
				mod[n] = true
			}
		}
		return
	}
	if f := c.StaticCallee(); f != nil {
		if strings.HasPrefix(f.Name(), "verif_mark") {
			return
		}
		if pureStdlib[calleeName(f)] {
			mod["alloc"] = true
			return
		}
		if strings.HasPrefix(calleeName(f), "(*strings.Builder).") {
			mod[builderAccHeap] = true
			return
		}
		if strings.HasPrefix(calleeName(f), xxDigestPrefix) {
			mod[writerAccHeap] = true
			return
		}
		if n := calleeName(f); len(c.Args) > 0 && strings.HasPrefix(n, "(*sync.") {
			if md, _, _ := vc.monitorOf(c.Args[0]); md != nil {
				if strings.HasSuffix(n, "Lock") && !strings.HasSuffix(n, "Unlock") {
					mod["*"] = true // acquiring a monitor lock: other threads ran
				}
				return
			}
		}
		if n := calleeName(f); n == "sync/atomic.LoadPointer" || n == "sync/atomic.CompareAndSwapPointer" {
			if ac, _, _ := vc.atomicCellOf(); ac != nil {
				mod[ghostLoad], mod[ghostCasOK], mod[ghostCasOld], mod[ghostCasNew] = true, true, true, true
				return
			}
		}
		if fi := vc.P.contractFor(f); fi != nil {
			if len(fi.fc.Modifies) == 0 {
				// no frame declared: treated like an unknown call
				mod["*"] = true
				return
			}
			// modifies clauses name objects: havoc the heaps they live in
			for _, h := range vc.modifiesHeaps(fi) {
				mod[h] = true
			}
			mod["alloc"] = true
			return
		}
	} else if c.IsInvoke() {
		if c.Method.Name() == "Write" && isIOWriter(c.Value.Type()) {
			mod[writerAccHeap] = true
			return
		}
		if fi := vc.P.ifaceContract(c.Method); fi != nil && len(fi.fc.Modifies) > 0 {
			for _, h := range vc.modifiesHeaps(fi) {
				mod[h] = true
			}
			mod["alloc"] = true
			return
		}
	} else if _, ok := vc.pureFieldOfValue(c.Value); ok {
		return
	}
	mod["*"] = true
}

func (vc *VC) modifiesHeaps(fi *FuncInfo) []string {
	var out []string
	for _, cl := range fi.fc.Modifies {
		for _, item := range splitTop(cl.Text) {
			item = strings.TrimSpace(item)
			if item == "nothing" {
				continue
			}
			out = append(out, vc.modItemHeap(fi, item))
		}
	}
	return out
}

func splitTop(s string) []string {
	var out []string
	d := 0
	start := 0
	for i, c := range s {
		switch c {
		case '(', '[', '{':
			d++
		case ')', ']', '}':
			d--
		case ',':
			if d == 0 {
				out = append(out, s[start:i])
				start = i + 1
			}
		}
	}
	return append(out, s[start:])
}

// modItemHeap resolves `p.f`, `*p`, `s[*]` against the callee's parameter types.
func (vc *VC) modItemHeap(fi *FuncInfo, item string) string {
	if h, ok := vc.heapItem(fi, item); ok {
		return h
	}
	base := item
	kind := ""
	switch {
	case strings.HasSuffix(item, "[*]"):
		base = strings.TrimSuffix(item, "[*]")
		kind = "elems"
	case strings.HasPrefix(item, "*"):
		base = item[1:]
		kind = "deref"
	case strings.Contains(item, "."):
		base = item[:strings.Index(item, ".")]
		kind = "field"
	}
	for i, n := range fi.params {
		if n == base {
			t := fi.ptypes[i]
			switch kind {
			case "elems":
				if sl, ok := t.Underlying().(*types.Slice); ok {
					h, _ := vc.memName(sl.Elem())
					return h
				}
			default:
				if pt, ok := t.Underlying().(*types.Pointer); ok {
					if at, ok := pt.Elem().Underlying().(*types.Array); ok {
						h, _ := vc.memName(at.Elem())
						return h
					}
					h, _ := vc.heapName(pt.Elem())
					return h
				}
			}
		}
	}
	vc.fail("modifies item %q of %s not understood", item, fi.fc.Key)
	return ""
}

func (P *Program) contractFor(f *ssa.Function) *FuncInfo {
	if f == nil {
		return nil
	}
	if fi := P.byFn[f]; fi != nil {
		return fi
	}
	if o := f.Origin(); o != nil {
		return P.byFn[o]
	}
	return nil
}

func (vc *VC) havocAll(st *State) {
	for _, name := range sortedKeys(vc.heapSort) {
		if strings.HasPrefix(name, "iter@") || strings.HasPrefix(name, "Local_") || strings.HasPrefix(name, "$") {
			continue // range iterators and non-escaping locals cannot be reached by a callee
		}
		vc.havocHeap(st, name)
	}
}

// ---------------------------------------------------------------------------

func (vc *VC) call(in ssa.Instruction, c *ssa.CallCommon, st *State, reach Term) Val {
	var rt types.Type = types.NewTuple()
	if v, ok := in.(ssa.Value); ok {
		rt = v.Type()
	}
	pos := in.Pos()
	if bi, ok := c.Value.(*ssa.Builtin); ok {
		return vc.builtin(bi.Name(), c, st, reach, rt, pos)
	}
	var args []Val
	if c.IsInvoke() {
		args = append(args, vc.val(c.Value))
	}
	for _, a := range c.Args {
		args = append(args, vc.val(a))
	}
	f := c.StaticCallee()
	if f != nil {
		if _, ok := markerOrdinal2(f); ok {
			return Val{typ: rt}
		}
		if fi := vc.P.contractFor(f); fi != nil {
			return vc.contractCall(fi, args, st, reach, rt, pos)
		}
		if r, ok := vc.atomicCall(calleeName(f), c, args, st, reach, rt, pos); ok {
			return r
		}
		if r, ok := vc.monitorCall(calleeName(f), c, st, reach, rt, pos); ok {
			return r
		}
		if r, ok := vc.builderModel(calleeName(f), args, st, reach, rt, pos); ok {
			return r
		}
		if r, ok := vc.digestModel(calleeName(f), args, st, reach, rt, pos); ok {
			return r
		}
		if r, ok := vc.stdlibModel(calleeName(f), c, args, st, reach, rt, pos); ok {
			return r
		}
		if r, ok := vc.bytesStdlib(calleeName(f), args, st, reach, rt, pos); ok {
			return r
		}
		if n := calleeName(f); (n == "strconv.FormatInt" || n == "strconv.FormatUint") && len(args) == 2 && args[1].t == "10" {
			// the decimal rendering of an integer: the same function of the (mathematical) value as strconv.Itoa
			vc.assume("assumed: strconv.FormatInt(x, 10), strconv.FormatUint(x, 10) and strconv.Itoa(x) are one function of the integer value (its decimal rendering)")
			return vc.detApply("strconv.Itoa", args[:1], rt)
		}
		if detStdlib[calleeName(f)] {
			return vc.detApply(calleeName(f), args, rt)
		}
		if pureStdlib[calleeName(f)] {
			vc.assume("assumed pure and total (external): " + calleeName(f))
			r := vc.freshTyped(st, "call", rt, reach)
			if nonNilResult[calleeName(f)] && r.tuple == nil {
				if isInterface(rt) {
					vc.addAssume(reach, not(app("(_ is dnil)", r.t)))
				} else {
					vc.addAssume(reach, not(eq(r.t, "0")))
				}
				vc.assume("assumed non-nil result (external): " + calleeName(f))
			}
			return r
		}
	} else if c.IsInvoke() {
		if r, ok := vc.hashInvoke(c, args, st, reach, rt, pos); ok {
			return r
		}
		if r, ok := vc.writerInvoke(c, args, st, reach, rt, pos); ok {
			return r
		}
		if fi := vc.P.ifaceContract(c.Method); fi != nil {
			// receiver must be non-nil to invoke
			vc.oblige("safe:nil", "invoke", reach, not(app("(_ is dnil)", args[0].t)), pos, vc.construct(pos))
			preSt := st.clone()
			r := vc.contractCall(fi, args, st, reach, rt, pos)
			vc.dispatchAssume(c.Method, args, r, preSt, st, reach)
			return r
		}
		vc.oblige("safe:nil", "invoke", reach, not(app("(_ is dnil)", args[0].t)), pos, vc.construct(pos))
	} else {
		// closure / function value
		fv := vc.val(c.Value)
		if !vc.nonnil[c.Value] && !(vc.panicMode && !vc.inRunDefers) {
			// (in a function with defer, calling a nil function value is one of the ways the call panics)
			vc.oblige("safe:nil", "funcvalue", reach, not(eq(fv.t, "0")), pos, vc.construct(pos))
		}
		if key, ok := vc.pureFieldOfValue(c.Value); ok {
			vc.noteInvoked(st, fv.t)
			return vc.pureFieldApply(key, fv, args, rt)
		}
	}
	if mc, ok := c.Value.(*ssa.MakeClosure); ok && !c.IsInvoke() {
		if lit, ok := mc.Fn.(*ssa.Function); ok && len(lit.Blocks) > 0 {
			return vc.inlineCall(lit, args, mc.Bindings, st, reach, rt, pos)
		}
	}
	if lit, ok := c.Value.(*ssa.Function); ok && !c.IsInvoke() && lit.Parent() != nil && len(lit.Blocks) > 0 && len(lit.FreeVars) == 0 {
		// a function literal that captures nothing
		return vc.inlineCall(lit, args, nil, st, reach, rt, pos)
	}
	// unknown call
	name := "dynamic call"
	if f != nil {
		name = calleeName(f)
	} else if c.IsInvoke() {
		name = "interface method " + c.Method.FullName()
	}
	vc.assume("call without contract: result unconstrained, reachable memory havocked, assumed not to panic: " + name)
	preCall := st.clone()
	vc.frameStrict(c, name, reach, pos)
	vc.havocForCall(c, st)
	vc.keepUnreachable(preCall, st, reach)
	res := vc.freshTyped(st, "call", rt, reach)
	if c.IsInvoke() {
		vc.dispatchAssume(c.Method, args, res, preCall, st, reach)
	}
	vc.mayPanicCall(c, res, st, reach)
	return res
}

func markerOrdinal2(f *ssa.Function) (int, bool) {
	if strings.HasPrefix(f.Name(), "verif_mark") {
		return 0, true
	}
	return 0, false
}

// frameStrict: inside a function that declares a frame, a call without contract that can reach
// memory of any type (interface, function or channel typed operands) may write heaps this
// function never names, which the per-heap frame obligations cannot see: it fails the frame.
func (vc *VC) frameStrict(c *ssa.CallCommon, name string, reach Term, pos token.Pos) {
	if vc.fi == nil || len(vc.fi.fc.Modifies) == 0 || vc.fi.fc.Trusted {
		return
	}
	all := c.IsInvoke() || c.StaticCallee() == nil
	for _, a := range c.Args {
		if typeReachesAll(a.Type(), map[types.Type]bool{}) {
			all = true
		}
	}
	if all {
		vc.oblige("frame", "call:"+name, reach, "false", pos, "modifies: call without contract or frame that can reach memory of any type")
	}
}

func typeReachesAll(t types.Type, seen map[types.Type]bool) bool {
	if seen[t] {
		return false
	}
	seen[t] = true
	switch u := t.Underlying().(type) {
	case *types.Pointer:
		return typeReachesAll(u.Elem(), seen)
	case *types.Slice:
		return typeReachesAll(u.Elem(), seen)
	case *types.Array:
		return typeReachesAll(u.Elem(), seen)
	case *types.Struct:
		for i := 0; i < u.NumFields(); i++ {
			if typeReachesAll(u.Field(i).Type(), seen) {
				return true
			}
		}
	case *types.Map:
		return typeReachesAll(u.Key(), seen) || typeReachesAll(u.Elem(), seen)
	case *types.Interface, *types.Signature, *types.Chan:
		return true
	}
	return false
}

// havocForCall: havoc heaps reachable by type from the arguments (all heaps if an
// interface or function value is passed).
func (vc *VC) havocForCall(c *ssa.CallCommon, st *State) {
	var ts []types.Type
	for _, a := range c.Args {
		ts = append(ts, a.Type())
	}
	vc.havocByTypes(ts, c.IsInvoke() || c.StaticCallee() == nil, st)
}

func (vc *VC) havocByTypes(ts []types.Type, all bool, st *State) {
	names := map[string]bool{"alloc": true}
	seen := map[types.Type]bool{}
	var walk func(t types.Type)
	walk = func(t types.Type) {
		if seen[t] || all {
			return
		}
		seen[t] = true
		if isStringsBuilder(t) {
			if _, ok := vc.heapSort[builderAccHeap]; ok {
				names[builderAccHeap] = true
			}
		}
		if isXXDigest(t) {
			if _, ok := vc.heapSort[writerAccHeap]; ok {
				names[writerAccHeap] = true
			}
		}
		switch u := t.Underlying().(type) {
		case *types.Pointer:
			if at, ok := u.Elem().Underlying().(*types.Array); ok {
				n, _ := vc.memName(at.Elem())
				names[n] = true
				walk(at.Elem())
			} else {
				n, _ := vc.heapName(u.Elem())
				names[n] = true
				walk(u.Elem())
			}
		case *types.Slice:
			n, _ := vc.memName(u.Elem())
			names[n] = true
			walk(u.Elem())
		case *types.Array:
			walk(u.Elem())
		case *types.Struct:
			for i := 0; i < u.NumFields(); i++ {
				walk(u.Field(i).Type())
			}
		case *types.Map:
			n, _, _ := vc.mapHeapName(u)
			names[n] = true
			walk(u.Key())
			walk(u.Elem())
		case *types.Interface, *types.Signature, *types.Chan:
			all = true
		}
	}
	for _, t := range ts {
		walk(t)
	}
	if all {
		vc.havocAll(st)
		return
	}
	for _, n := range sortedKeys(names) {
		vc.havocHeap(st, n)
	}
	// mutable globals may change in any unknown call
	for _, n := range sortedKeys(vc.heapSort) {
		if strings.HasPrefix(n, "G_") {
			vc.havocHeap(st, n)
		}
	}
}

func (vc *VC) contractCall(fi *FuncInfo, args []Val, st *State, reach Term, rt types.Type, pos token.Pos) Val {
	if fi.missing != "" {
		vc.fail("callee contract unresolved: %s", fi.missing)
	}
	vc.usedCallees[fi] = true
	env := map[string]Val{}
	for i, n := range fi.params {
		if i < len(args) {
			env[n] = args[i]
		}
	}
	pre := st.clone()
	for _, cl := range fi.fc.Requires {
		t := vc.clauseTerm(fi, cl, env, nil, st, st)
		vc.oblige("call-pre", fi.fc.Name, reach, t, pos, cl.Text)
	}
	// frame
	vc.havocHeap(st, "alloc")
	if len(fi.fc.Modifies) > 0 {
		vc.applyModifies(fi, env, st, pre, reach)
	} else {
		// no frame declared (not checked in the callee either): havoc by type reachability
		var ts []types.Type
		for _, a := range args {
			ts = append(ts, a.typ)
		}
		if vc.fi != nil && len(vc.fi.fc.Modifies) > 0 && !vc.fi.fc.Trusted {
			all := fi.fc.IsIface
			for _, t := range ts {
				if typeReachesAll(t, map[types.Type]bool{}) {
					all = true
				}
			}
			if all {
				vc.oblige("frame", "call:"+fi.fc.Name, reach, "false", pos, "modifies: call of a function without frame that can reach memory of any type")
			}
		}
		vc.havocByTypes(ts, fi.fc.IsIface, st)
	}
	if fi.fc.Tallies != "" {
		vc.tallyCall(fi, env, st)
	}
	if fi.fc.Counts && len(args) > 0 {
		vc.countCall(fi.fc.Name, args[0], st)
	}
	if fi.fc.Stream && len(args) > 0 {
		vc.streamAdvance(args[0], st)
	}
	// ghost state of an atomic cell: after the call it describes the callee's activation (its last
	// load and its successful compare-and-swap, if any), which is what the callee's postconditions say
	if len(fi.fc.Cas) > 0 || fi.mentionsAtomicGhost() {
		for _, g := range []string{ghostLoad, ghostCasOK, ghostCasOld, ghostCasNew} {
			if _, ok := vc.heapSort[g]; ok {
				vc.havocHeap(st, g)
			}
		}
	}
	res := vc.freshTyped(st, "r_"+fi.fc.Name, rt, reach)
	renv := map[string]Val{}
	if res.tuple != nil {
		for i, n := range fi.results {
			renv[n] = res.tuple[i]
		}
	} else if len(fi.results) == 1 {
		renv[fi.results[0]] = res
	}
	// call-history ghosts are per activation: the callee's postconditions describe what the callee did
	// (from an empty history); the caller's history is then its own so far joined with the callee's
	historyGhosts := fi.mentionsHistoryGhost()
	if !historyGhosts && fi.fn != nil && !fi.fc.Trusted && vc.historyActive(fi.fn, map[*ssa.Function]bool{}) {
		// the callee may call stored callbacks or bump counters but its contract is silent about it:
		// the caller's history after the call is unknown (callbacks once invoked stay invoked)
		ib := vc.heapGet(st, ghostInvoked, "(Array Int Bool)")
		ni := vc.freshConst("invoked", "(Array Int Bool)")
		vc.quantCtx = true
		vc.addAssume("true", "(forall ((f Int)) (! (=> (select "+ib+" f) (select "+ni+" f)) :pattern ((select "+ni+" f))))")
		vc.heapSet(st, ghostInvoked, "(Array Int Bool)", ni)
		vc.heapSet(st, ghostTally, "(Array Int Int)", vc.freshConst("tally", "(Array Int Int)"))
		for _, m := range vc.countedMethods() {
			vc.heapSet(st, ghostCallsPrefix+m, ghostCallsSort, vc.freshConst("calls", ghostCallsSort))
		}
	}
	var invBefore, talBefore Term
	callsBefore := map[string]Term{}
	if historyGhosts {
		invBefore = vc.heapGet(st, ghostInvoked, "(Array Int Bool)")
		talBefore = vc.heapGet(st, ghostTally, "(Array Int Int)")
		vc.heapSet(st, ghostInvoked, "(Array Int Bool)", vc.freshConst("calleeinvoked", "(Array Int Bool)"))
		vc.heapSet(st, ghostTally, "(Array Int Int)", vc.freshConst("calleetally", "(Array Int Int)"))
		for _, m := range vc.countedMethods() {
			callsBefore[m] = vc.callsGet(st, m)
			vc.heapSet(st, ghostCallsPrefix+m, ghostCallsSort, vc.freshConst("calleecalls", ghostCallsSort))
		}
	}
	for _, cl := range fi.fc.Ensures {
		t := vc.clauseTerm(fi, cl, env, renv, st, pre)
		vc.addAssume(reach, t)
		if cl.NameOnly {
			vc.assume("result naming (no obligation; the function is assumed to be a function of the named arguments within one caller): " + fi.qname() + ": " + cl.Text)
		}
	}
	if historyGhosts {
		ci := vc.heapGet(st, ghostInvoked, "(Array Int Bool)")
		ct := vc.heapGet(st, ghostTally, "(Array Int Int)")
		ni := vc.freshConst("invoked", "(Array Int Bool)")
		nt := vc.freshConst("tally", "(Array Int Int)")
		vc.quantCtx = true
		vc.addAssume("true", "(forall ((f Int)) (! (= (select "+ni+" f) (or (select "+invBefore+" f) (select "+ci+" f))) :pattern ((select "+ni+" f))))")
		vc.addAssume("true", "(forall ((k Int)) (! (= (select "+nt+" k) (+ (select "+talBefore+" k) (select "+ct+" k))) :pattern ((select "+nt+" k))))")
		vc.heapSet(st, ghostInvoked, "(Array Int Bool)", ni)
		vc.heapSet(st, ghostTally, "(Array Int Int)", nt)
		for _, m := range vc.countedMethods() {
			cc := vc.callsGet(st, m)
			nc := vc.freshConst("calls", ghostCallsSort)
			vc.addAssume("true", "(forall ((r Dyn)) (! (= (select "+nc+" r) (+ (select "+callsBefore[m]+" r) (select "+cc+" r))) :pattern ((select "+nc+" r))))")
			vc.heapSet(st, ghostCallsPrefix+m, ghostCallsSort, nc)
		}
	}
	return res
}

func (fi *FuncInfo) mentionsHistoryGhost() bool {
	for _, cl := range fi.fc.Ensures {
		if strings.Contains(cl.Text, "invoked(") || strings.Contains(cl.Text, "tally(") || strings.Contains(cl.Text, "calls(") {
			return true
		}
	}
	return false
}

// applyModifies havocs exactly the locations named by the callee's modifies clauses.
func (vc *VC) applyModifies(fi *FuncInfo, env map[string]Val, st, pre *State, reach Term) {
	for _, cl := range fi.fc.Modifies {
		for _, item := range splitTop(cl.Text) {
			item = strings.TrimSpace(item)
			switch {
			case item == "nothing":
			case strings.HasPrefix(item, "heap "):
				h, _ := vc.heapItem(fi, item)
				vc.havocHeap(st, h)
			case strings.HasSuffix(item, "[*]"):
				base := strings.TrimSuffix(item, "[*]")
				v, ok := env[base]
				if !ok {
					vc.fail("modifies %s: unknown %s", item, base)
				}
				sl := v.typ.Underlying().(*types.Slice)
				name, sort := vc.memName(sl.Elem())
				h := vc.heapGet(st, name, sort)
				arr := vc.freshConst("modarr", "(Array Int "+vc.S.sortOf(sl.Elem())+")")
				old := app("select", h, slRef(v.t))
				vc.quantCtx = true
				vc.addAssume(reach, "(forall ((j Int)) (! (=> (or (< j "+slOff(v.t)+") (>= j (+ "+slOff(v.t)+" "+slLen(v.t)+"))) (= (select "+arr+" j) (select "+old+" j))) :pattern ((select "+arr+" j))))")
				vc.heapSet(st, name, sort, app("store", h, slRef(v.t), arr))
			case strings.Contains(item, ".") && !strings.HasPrefix(item, "*"):
				i := strings.Index(item, ".")
				base, fld := item[:i], item[i+1:]
				v, ok := env[base]
				if !ok {
					vc.fail("modifies %s: unknown %s", item, base)
				}
				lv := vc.lvOf(v)
				stt, ok := lv.typ.Underlying().(*types.Struct)
				if !ok {
					vc.fail("modifies %s: not a struct pointer", item)
				}
				ss := vc.S.structOf(lv.typ)
				idx := -1
				for k := 0; k < stt.NumFields(); k++ {
					if stt.Field(k).Name() == fld {
						idx = k
					}
				}
				if idx < 0 {
					vc.fail("modifies %s: no field %s", item, fld)
				}
				old := vc.define("obj", ss.name, vc.load(st, lv))
				nv := vc.freshTyped(st, "mod_"+fld, stt.Field(idx).Type(), reach)
				var as []Term
				for k, f := range ss.fields {
					if k == idx {
						as = append(as, nv.t)
					} else {
						as = append(as, app(f, old))
					}
				}
				vc.store(st, lv, app(ss.ctor, as...))
			case strings.HasPrefix(item, "*"):
				v, ok := env[item[1:]]
				if !ok {
					vc.fail("modifies %s: unknown", item)
				}
				lv := vc.lvOf(v)
				nv := vc.freshTyped(st, "mod", lv.typ, reach)
				vc.store(st, lv, nv.t)
			default:
				vc.fail("modifies item %q not understood", item)
			}
		}
	}
}

// frameCheck: at return, everything allocated at entry and not named in `modifies` is unchanged.
func (vc *VC) frameCheck(st *State, reach Term, pos token.Pos) {
	if vc.fi == nil || len(vc.fi.fc.Modifies) == 0 {
		return // no frame declared: callers assume nothing about it
	}
	a0 := vc.allocGet(vc.entry)
	// the post-state with the modifies havoc applied to the ENTRY state must be able to equal the exit state
	// on all entry-allocated references: we check  forall r < alloc0: exit[r] == entry[r]  for objects not named.
	type excl struct {
		heap string
		ref  Term
		lo   Term
		hi   Term
		flds map[int]bool
		all  bool
	}
	var ex []excl
	whole := map[string]bool{} // heaps named as a whole (`modifies heap T`)
	for _, cl := range vc.fi.fc.Modifies {
		for _, item := range splitTop(cl.Text) {
			item = strings.TrimSpace(item)
			switch {
			case strings.HasPrefix(item, "heap "):
				h, _ := vc.heapItem(vc.fi, item)
				whole[h] = true
			case strings.HasSuffix(item, "[*]"):
				v, ok := vc.params[strings.TrimSuffix(item, "[*]")]
				if !ok || v.typ == nil {
					vc.fail("modifies %s: the base must be a slice parameter (use `modifies heap []T` for memory reached through a field)", item)
				}
				sl := v.typ.Underlying().(*types.Slice)
				name, _ := vc.memName(sl.Elem())
				ex = append(ex, excl{heap: name, ref: slRef(v.t), lo: slOff(v.t), hi: app("+", slOff(v.t), slLen(v.t))})
			case strings.Contains(item, ".") && !strings.HasPrefix(item, "*"):
				i := strings.Index(item, ".")
				v := vc.params[item[:i]]
				lv := vc.lvOf(v)
				stt := lv.typ.Underlying().(*types.Struct)
				idx := -1
				for k := 0; k < stt.NumFields(); k++ {
					if stt.Field(k).Name() == item[i+1:] {
						idx = k
					}
				}
				found := false
				for k := range ex {
					if ex[k].heap == lv.heap && ex[k].ref == lv.ref && ex[k].flds != nil {
						ex[k].flds[idx] = true
						found = true
					}
				}
				if !found {
					ex = append(ex, excl{heap: lv.heap, ref: lv.ref, flds: map[int]bool{idx: true}})
				}
			case strings.HasPrefix(item, "*"):
				v := vc.params[item[1:]]
				lv := vc.lvOf(v)
				ex = append(ex, excl{heap: lv.heap, ref: lv.ref, all: true})
			}
		}
	}
	for _, name := range sortedKeys(vc.heapSort) {
		sort := vc.heapSort[name]
		if name == "alloc" || strings.HasPrefix(name, "iter@") || strings.HasPrefix(name, "Local_") || strings.HasPrefix(name, "$") {
			continue // (ghost state -- names starting with $ -- is not memory)
		}
		cur := vc.heapGet(st, name, sort)
		old := vc.heapGet(vc.entry, name, sort)
		if cur == old || whole[name] {
			continue
		}
		if strings.HasPrefix(sort, "(Array Dyn ") {
			// ghost heaps indexed by interface values (writers, streams): unchanged as a whole
			vc.oblige("frame", name, reach, eq(cur, old), pos, "modifies (frame of "+name+")")
			continue
		}
		if strings.HasPrefix(name, "G_") {
			// globals: must be listed as  modifies global NAME  (not supported yet): report
			vc.oblige("frame", name, reach, eq(cur, old), pos, "modifies (global "+name+")")
			continue
		}
		r := vc.freshConst("fr", "Int")
		conds := []Term{app("<", r, a0), app("<=", "0", r)}
		var special []Term
		for _, e := range ex {
			if e.heap != name {
				continue
			}
			conds = append(conds, not(eq(r, e.ref)))
			switch {
			case e.all:
			case e.flds != nil:
				// other fields of the named object unchanged
				ss := vc.S.structOf(vc.heapElemType(name))
				for k, f := range ss.fields {
					if !e.flds[k] {
						special = append(special, eq(app(f, app("select", cur, e.ref)), app(f, app("select", old, e.ref))))
					}
				}
			default:
				j := vc.freshConst("frj", "Int")
				special = append(special, implies(or(app("<", j, e.lo), app(">=", j, e.hi)),
					eq(app("select", app("select", cur, e.ref), j), app("select", app("select", old, e.ref), j))))
			}
		}
		c := implies(and(conds...), eq(app("select", cur, r), app("select", old, r)))
		vc.oblige("frame", name, reach, and(append([]Term{c}, special...)...), pos, "modifies (frame of "+name+")")
	}
}

var heapElemTypes = map[string]types.Type{}

func (vc *VC) heapElemType(name string) types.Type { return heapElemTypes[name] }

// ---------------------------------------------------------------------------
// builtins with effects

func (vc *VC) builtin(name string, c *ssa.CallCommon, st *State, reach Term, rt types.Type, pos token.Pos) Val {
	switch name {
	case "len", "cap", "min", "max":
		return vc.builtinPure(name, c.Args, vc.val, st, rt)
	case "append":
		return vc.appendCall(c, st, reach, rt, pos)
	case "copy":
		return vc.copyCall(c, st, reach, rt)
	case "print", "println":
		return Val{typ: rt}
	case "recover":
		return vc.recoverCall(st, rt)
	case "delete":
		mt := c.Args[0].Type().Underlying().(*types.Map)
		hn, sort, ms := vc.mapHeapName(mt)
		mref := vc.val(c.Args[0]).t
		h := vc.heapGet(st, hn, sort)
		m := vc.define("m", ms.name, app("select", h, mref))
		k := vc.mapKey(vc.val(c.Args[1]), mt.Key())
		was := app("select", app(ms.present(), m), k)
		nm := app(ms.ctor(), app("store", app(ms.present(), m), k, "false"), app(ms.vals(), m),
			ite(was, app("-", app(ms.size(), m), "1"), app(ms.size(), m)))
		// delete on a nil map is a no-op
		vc.heapSet(st, hn, sort, ite(eq(mref, "0"), h, app("store", h, mref, nm)))
		return Val{typ: rt}
	case "ssa:wrapnilchk":
		v := vc.val(c.Args[0])
		vc.oblige("safe:nil", "wrapnilchk", reach, not(eq(vc.asTerm(v), "0")), pos, vc.construct(pos))
		return v
	}
	vc.fail("builtin %s", name)
	return Val{}
}

// constLenSlice: if v is  new [k]T  sliced whole, return k and the alloc
func constLenSlice(v ssa.Value) (int64, *ssa.Alloc, bool) {
	s, ok := v.(*ssa.Slice)
	if !ok || s.Low != nil || s.High != nil || s.Max != nil {
		return 0, nil, false
	}
	a, ok := s.X.(*ssa.Alloc)
	if !ok {
		return 0, nil, false
	}
	at, ok := a.Type().(*types.Pointer).Elem().Underlying().(*types.Array)
	if !ok {
		return 0, nil, false
	}
	return at.Len(), a, true
}

func (vc *VC) appendCall(c *ssa.CallCommon, st *State, reach Term, rt types.Type, pos token.Pos) Val {
	s := vc.val(c.Args[0]).t
	sl := rt.Underlying().(*types.Slice)
	et := sl.Elem()
	es := vc.S.sortOf(et)
	name, sort := vc.memName(et)
	h := vc.heapGet(st, name, sort)
	var n Term
	var elemAt func(j Term) Term
	if isString(c.Args[1].Type()) {
		e := vc.val(c.Args[1]).t
		n = strLen(e)
		elemAt = func(j Term) Term { return strAt(e, j) }
	} else {
		e := vc.val(c.Args[1]).t
		n = slLen(e)
		src := vc.define("appsrc", "(Array Int "+es+")", app("select", h, slRef(e)))
		elemAt = func(j Term) Term { return app("select", src, add(slOff(e), j)) }
	}
	fits := vc.define("fits", "Bool", app("<=", app("+", slLen(s), n), slCap(s)))
	// new backing store (when it does not fit)
	nref := vc.freshRef(st, "appref")
	ncap := vc.freshConst("appcap", "Int")
	newLen := vc.define("applen", "Int", app("+", slLen(s), n))
	vc.addAssume(reach, app(">=", ncap, newLen))
	oldArr := vc.define("apparr", "(Array Int "+es+")", app("select", h, slRef(s)))
	resArr := vc.freshConst("appres", "(Array Int "+es+")")
	// result array: at result offset: first len(s) elements = old, next n = elems; in-place: everything else unchanged
	roff := vc.define("appoff", "Int", ite(fits, slOff(s), "0"))
	k, _, isConst := constLenSlice(c.Args[1])
	var facts []Term
	if isConst && k <= 8 {
		// small constant count: explicit stores, no quantifier for appended elements
		for j := int64(0); j < k; j++ {
			facts = append(facts, eq(app("select", resArr, app("+", roff, slLen(s), num(j))), elemAt(num(j))))
		}
	} else {
		vc.quantCtx = true
		facts = append(facts, "(forall ((j Int)) (! (=> (and (<= 0 j) (< j "+n+")) (= (select "+resArr+" (+ "+roff+" "+slLen(s)+" j)) "+elemAt("j")+")) :pattern ((select "+resArr+" (+ "+roff+" "+slLen(s)+" j)))))")
	}
	vc.quantCtx = true
	// old prefix preserved
	facts = append(facts, "(forall ((j Int)) (! (=> (and (<= 0 j) (< j "+slLen(s)+")) (= (select "+resArr+" (+ "+roff+" j)) (select "+oldArr+" (+ "+slOff(s)+" j)))) :pattern ((select "+resArr+" (+ "+roff+" j)))))")
	// in place: cells outside the appended window unchanged
	facts = append(facts, implies(fits, "(forall ((j Int)) (! (=> (or (< j (+ "+slOff(s)+" "+slLen(s)+")) (>= j (+ "+slOff(s)+" "+newLen+"))) (= (select "+resArr+" j) (select "+oldArr+" j))) :pattern ((select "+resArr+" j))))"))
	vc.addAssume(reach, and(facts...))
	rref := ite(fits, slRef(s), nref)
	// nil slice append with n == 0 stays nil-ish; harmless over-approximation: ref may be 0 with cap 0
	res := vc.define("app", "Slice", app("mkslice", rref, roff, newLen, ite(fits, slCap(s), ncap)))
	vc.heapSet(st, name, sort, app("store", h, slRef(res), resArr))
	return Val{t: res, typ: rt}
}

func (vc *VC) copyCall(c *ssa.CallCommon, st *State, reach Term, rt types.Type) Val {
	d := vc.val(c.Args[0]).t
	sl := c.Args[0].Type().Underlying().(*types.Slice)
	es := vc.S.sortOf(sl.Elem())
	name, sort := vc.memName(sl.Elem())
	h := vc.heapGet(st, name, sort)
	var n Term
	var elemAt func(j Term) Term
	if isString(c.Args[1].Type()) {
		e := vc.val(c.Args[1]).t
		n = strLen(e)
		elemAt = func(j Term) Term { return strAt(e, j) }
	} else {
		e := vc.val(c.Args[1]).t
		n = slLen(e)
		src := vc.define("cpsrc", "(Array Int "+es+")", app("select", h, slRef(e)))
		elemAt = func(j Term) Term { return app("select", src, add(slOff(e), j)) }
	}
	cnt := vc.define("cpn", "Int", ite(app("<=", n, slLen(d)), n, slLen(d)))
	old := vc.define("cpold", "(Array Int "+es+")", app("select", h, slRef(d)))
	res := vc.freshConst("cpres", "(Array Int "+es+")")
	vc.quantCtx = true
	vc.addAssume(reach, and(
		"(forall ((j Int)) (! (=> (and (<= 0 j) (< j "+cnt+")) (= (select "+res+" (+ "+slOff(d)+" j)) "+elemAt("j")+")) :pattern ((select "+res+" (+ "+slOff(d)+" j)))))",
		"(forall ((j Int)) (! (=> (or (< j "+slOff(d)+") (>= j (+ "+slOff(d)+" "+cnt+"))) (= (select "+res+" j) (select "+old+" j))) :pattern ((select "+res+" j))))"))
	vc.heapSet(st, name, sort, ite(eq(cnt, "0"), h, app("store", h, slRef(d), res)))
	return Val{t: cnt, typ: rt}
}

// ---------------------------------------------------------------------------
// range / next

func (vc *VC) rangeInit(x *ssa.Range, st *State, reach Term) {
	vc.heapSet(st, "iter@"+x.Name(), "Int", "0")
	if mt, ok := x.X.Type().Underlying().(*types.Map); ok && vc.mapRangeNoInsert(x) {
		// ghost: the set of keys this iteration has produced so far
		vc.heapSet(st, "iter@seen@"+x.Name(), "(Array "+vc.S.keySort(mt.Key())+" Bool)", "((as const (Array "+vc.S.keySort(mt.Key())+" Bool)) false)")
	}
	vc.vals[x] = Val{t: "0", typ: x.Type()}
}

func (vc *VC) next(x *ssa.Next, st *State, reach Term) {
	r, ok := x.Iter.(*ssa.Range)
	if !ok {
		vc.fail("next on non-range iterator")
	}
	hn := "iter@" + r.Name()
	pos := vc.heapGet(st, hn, "Int")
	if x.IsString {
		s := vc.val(r.X).t
		// concrete-semantics invariant of a string range: 0 <= pos <= len
		vc.addAssume(reach, and(app("<=", "0", pos), app("<=", pos, strLen(s))))
		ok := vc.define(x.Name()+".ok", "Bool", app("<", pos, strLen(s)))
		w := vc.freshConst("runew", "Int")
		ru := vc.freshConst("rune", "Int")
		vc.addAssume(reach, and(app("<=", "1", w), app("<=", w, "4"), app("<=", app("+", pos, w), strLen(s)),
			app("<=", "0", ru), app("<=", ru, "1114111")))
		vc.heapSet(st, hn, "Int", ite(ok, app("+", pos, w), pos))
		vc.assume("string range: each step consumes 1..4 bytes, rune value uninterpreted")
		vc.vals[x] = Val{tuple: []Val{{t: ok, typ: types.Typ[types.Bool]}, {t: pos, typ: types.Typ[types.Int]}, {t: ru, typ: types.Typ[types.Rune]}}, typ: x.Type()}
		return
	}
	// map range: an arbitrary present key; number of steps taken is tracked, at most size
	mt := r.X.Type().Underlying().(*types.Map)
	name, sort, ms := vc.mapHeapName(mt)
	mref := vc.val(r.X).t
	m := app("select", vc.heapGet(st, name, sort), mref)
	okc := vc.freshConst(x.Name()+".ok", "Bool")
	k := vc.freshTyped(st, x.Name()+".k", mt.Key(), reach)
	v := vc.freshTyped(st, x.Name()+".v", mt.Elem(), reach)
	vc.addAssume(reach, and(app("<=", "0", pos),
		implies(okc, and(app("select", app(ms.present(), m), vc.mapKey(k, mt.Key())), eq(v.t, app("select", app(ms.vals(), m), vc.mapKey(k, mt.Key()))))),
		implies(eq(mref, "0"), not(okc))))
	vc.heapSet(st, hn, "Int", app("+", pos, "1"))
	if vc.mapRangeNoInsert(r) {
		// No entry is created in a map of this type while the loop runs (checked syntactically), so by the
		// language definition every entry is produced at most once, and the iteration ends only when every
		// entry still present has been produced (an entry removed before it is reached is not produced).
		ks := vc.S.keySort(mt.Key())
		sn := "iter@seen@" + r.Name()
		seen := vc.heapGet(st, sn, "(Array "+ks+" Bool)")
		kq := vc.freshName("k")
		vc.quantCtx = true
		vc.addAssume(reach, and(
			implies(okc, not(app("select", seen, vc.mapKey(k, mt.Key())))),
			implies(not(okc), "(forall (("+kq+" "+ks+")) (! (=> (select ("+ms.present()+" "+m+") "+kq+") (select "+seen+" "+kq+")) :pattern ((select ("+ms.present()+" "+m+") "+kq+"))))")))
		vc.heapSet(st, sn, "(Array "+ks+" Bool)", ite(okc, app("store", seen, vc.mapKey(k, mt.Key()), "true"), seen))
		vc.assume("map range without insertion (checked syntactically): each entry is produced at most once and the loop ends only when every entry still present was produced (Go language definition of range over a map)")
	}
	vc.assume("map range: yields arbitrary present keys; completeness/termination of map iteration assumed")
	vc.vals[x] = Val{tuple: []Val{{t: okc, typ: types.Typ[types.Bool]}, k, v}, typ: x.Type()}
}

// ---------------------------------------------------------------------------

var globalConstCache = map[*ssa.Global]bool{}

// globalConst: the global is never stored to outside package initialisers (scan of module packages).
func (P *Program) globalConst(g *ssa.Global) bool {
	if v, ok := globalConstCache[g]; ok {
		return v
	}
	if !strings.HasPrefix(g.Pkg.Pkg.Path(), modPath) {
		globalConstCache[g] = true // external globals (io.EOF, ...) assumed constant
		return true
	}
	res := true
	for _, sp := range P.prog.AllPackages() {
		if !strings.HasPrefix(sp.Pkg.Path(), modPath) {
			continue
		}
		check := func(f *ssa.Function) {
			if f.Name() == "init" || strings.HasPrefix(f.Name(), "init#") {
				if f.Pkg == g.Pkg {
					return
				}
			}
			var visit func(f *ssa.Function)
			visit = func(f *ssa.Function) {
				for _, b := range f.Blocks {
					for _, in := range b.Instrs {
						switch s := in.(type) {
						case *ssa.Store:
							if s.Addr == g {
								res = false
							}
							if s.Val == g {
								res = false
							}
						case *ssa.FieldAddr:
							if s.X == g {
								res = false
							}
						case *ssa.IndexAddr:
							if s.X == g {
								// taking element address: a store may follow
								for _, r := range *s.Referrers() {
									if st, ok := r.(*ssa.Store); ok && st.Addr == s {
										res = false
									}
								}
							}
						case ssa.CallInstruction:
							for _, a := range s.Common().Args {
								if a == g {
									res = false
								}
							}
						}
					}
				}
				for _, a := range f.AnonFuncs {
					visit(a)
				}
			}
			visit(f)
		}
		for _, m := range sp.Members {
			switch mm := m.(type) {
			case *ssa.Function:
				check(mm)
			case *ssa.Type:
				for _, t := range []types.Type{mm.Type(), types.NewPointer(mm.Type())} {
					ms := P.prog.MethodSets.MethodSet(t)
					for i := 0; i < ms.Len(); i++ {
						if f := P.prog.MethodValue(ms.At(i)); f != nil && f.Pkg == sp {
							check(f)
						}
					}
				}
			}
		}
	}
	globalConstCache[g] = res
	return res
}

var srcCache = map[string][]string{}

func (P *Program) sourceLine(pos token.Pos) string {
	if !pos.IsValid() {
		return ""
	}
	ps := P.fset.Position(pos)
	lines, ok := srcCache[ps.Filename]
	if !ok {
		b, err := os.ReadFile(ps.Filename)
		if err == nil {
			lines = strings.Split(string(b), "\n")
		}
		srcCache[ps.Filename] = lines
	}
	if ps.Line-1 < len(lines) && ps.Line >= 1 {
		return strings.TrimSpace(lines[ps.Line-1])
	}
	return ""
}

func init() { _ = fmt.Sprint }

// ---------------------------------------------------------------------------
// function-valued struct fields declared `purefield TYPE.FIELD`: a call through such a field is
// assumed to have no effect, not to panic, and to return a deterministic function of the function
// value and the arguments (listed as an assumption on every use).

func (vc *VC) pureFieldKey(t types.Type, field string) (string, bool) {
	if p, ok := t.Underlying().(*types.Pointer); ok {
		t = p.Elem()
	}
	n, ok := types.Unalias(t).(*types.Named)
	if !ok || n.Obj().Pkg() == nil {
		return "", false
	}
	key := n.Obj().Pkg().Path() + "." + n.Obj().Name() + "." + field
	for ip, pc := range vc.P.pcs {
		for _, f := range pc.PureFields {
			if ip+"."+strings.TrimSpace(f) == key {
				return key, true
			}
		}
	}
	return "", false
}

// pureFuncKey: t is a named function type declared `purefunc TYPE` in its package's contract file.
func (vc *VC) pureFuncKey(t types.Type) (string, bool) {
	n, ok := types.Unalias(t).(*types.Named)
	if !ok || n.Obj().Pkg() == nil {
		return "", false
	}
	if _, isSig := n.Underlying().(*types.Signature); !isSig {
		return "", false
	}
	if pc := vc.P.pcs[n.Obj().Pkg().Path()]; pc != nil {
		for _, f := range pc.PureFuncs {
			if strings.TrimSpace(f) == n.Obj().Name() {
				return n.Obj().Pkg().Path() + "." + n.Obj().Name(), true
			}
		}
	}
	return "", false
}

func (vc *VC) pureFieldOfValue(v ssa.Value) (string, bool) {
	if key, ok := vc.pureFuncKey(v.Type()); ok {
		return key, true
	}
	switch x := v.(type) {
	case *ssa.Field:
		if st, ok := x.X.Type().Underlying().(*types.Struct); ok {
			return vc.pureFieldKey(x.X.Type(), st.Field(x.Field).Name())
		}
	case *ssa.UnOp:
		if fa, ok := x.X.(*ssa.FieldAddr); ok && x.Op == token.MUL {
			if pt, ok := fa.X.Type().Underlying().(*types.Pointer); ok {
				if st, ok := pt.Elem().Underlying().(*types.Struct); ok {
					return vc.pureFieldKey(pt.Elem(), st.Field(fa.Field).Name())
				}
			}
		}
	}
	return "", false
}

func (vc *VC) pureFieldApply(key string, fv Val, args []Val, rt types.Type) Val {
	vc.assume("function-valued field assumed pure, total and deterministic (no effects, no panic, result a function of the function value and the arguments): " + key)
	sorts := []string{"Int"}
	ts := []Term{fv.t}
	for _, a := range args {
		sorts = append(sorts, vc.S.sortOf(a.typ))
		ts = append(ts, vc.asTerm(a))
	}
	if tup, ok := rt.(*types.Tuple); ok {
		if tup.Len() == 0 {
			return Val{typ: rt}
		}
		var vs []Val
		for i := 0; i < tup.Len(); i++ {
			f := vc.declareFun(fmt.Sprintf("fieldfn.%s.%d", key, i), sorts, vc.S.sortOf(tup.At(i).Type()))
			vs = append(vs, Val{t: app(f, ts...), typ: tup.At(i).Type()})
		}
		return Val{tuple: vs, typ: rt}
	}
	f := vc.declareFun("fieldfn."+key, sorts, vc.S.sortOf(rt))
	return Val{t: app(f, ts...), typ: rt}
}

// mapRangeNoInsert: x ranges over a map and nothing inside the loop(s) that iterate it can create an entry
// in a map of that type: no map update on that map heap, no call that may write it (a contract frame
// or the effect-free list says otherwise), only the builtin delete/clear.
func (vc *VC) mapRangeNoInsert(x *ssa.Range) bool {
	mt, ok := x.X.Type().Underlying().(*types.Map)
	if !ok {
		return false
	}
	if v, ok := vc.mapRangeCache[x]; ok {
		return v
	}
	hn, _, _ := vc.mapHeapName(mt)
	res := false
	// the loop whose header consumes this iterator
	for _, li := range vc.loops {
		uses := false
		for b := range li.blocks {
			for _, in := range b.Instrs {
				if n, ok := in.(*ssa.Next); ok && n.Iter == ssa.Value(x) {
					uses = true
				}
			}
		}
		if !uses {
			continue
		}
		res = true
		for b := range li.blocks {
			for _, in := range b.Instrs {
				switch y := in.(type) {
				case *ssa.MapUpdate:
					if n, _, _ := vc.mapHeapName(y.Map.Type().Underlying().(*types.Map)); n == hn {
						// an update of a map this activation made itself (and that is not the one ranged over)
						// creates no entry in the ranged map
						if mk, ok := y.Map.(*ssa.MakeMap); !ok || ssa.Value(mk) == x.X {
							res = false
						}
					}
				case ssa.CallInstruction:
					if bi, ok := y.Common().Value.(*ssa.Builtin); ok && (bi.Name() == "delete" || bi.Name() == "clear") {
						continue
					}
					mod := map[string]bool{}
					vc.callModifies(y.Common(), mod)
					if mod["*"] || mod[hn] {
						res = false
					}
				}
			}
		}
	}
	if vc.mapRangeCache == nil {
		vc.mapRangeCache = map[*ssa.Range]bool{}
	}
	vc.mapRangeCache[x] = res
	return res
}

// heapItem: `modifies heap T` names a whole heap by the Go type of the memory it holds:
// heap []T is the element memory of slices/arrays of T, heap map[K]V the memory of maps of that type,
// heap *T the memory of T objects. It says: the function may write anywhere in that heap (and nowhere else).
func (vc *VC) heapItem(fi *FuncInfo, item string) (string, bool) {
	if !strings.HasPrefix(item, "heap ") {
		return "", false
	}
	src := strings.TrimSpace(item[5:])
	if src == "writers" {
		vc.bytesOn()
		vc.heapGet(vc.entry, writerAccHeap, writerAccSort)
		return writerAccHeap, true
	}
	pos := token.NoPos
	if fi.decl != nil && fi.decl.Body != nil {
		pos = fi.decl.Body.Lbrace + 1
	} else if o := fi.pkg.Types.Scope().Lookup(fi.fc.Recv); o != nil {
		pos = o.Pos()
	}
	tv, err := types.Eval(vc.P.fset, fi.pkg.Types, pos, src)
	if err != nil || !tv.IsType() {
		vc.fail("modifies %s of %s: not a type (%v)", item, fi.fc.Key, err)
	}
	switch t := tv.Type.Underlying().(type) {
	case *types.Slice:
		n, _ := vc.memName(t.Elem())
		return n, true
	case *types.Map:
		n, _, _ := vc.mapHeapName(t)
		return n, true
	case *types.Pointer:
		n, _ := vc.heapName(t.Elem())
		return n, true
	}
	vc.fail("modifies %s of %s: need []T, map[K]V or *T", item, fi.fc.Key)
	return "", false
}

// ifaceContract finds the contract of an interface method, also through an instantiation of a
// generic interface (whose method object is a copy of the declared one).
func (P *Program) ifaceContract(m *types.Func) *FuncInfo {
	if m == nil {
		return nil
	}
	if fi := P.byObj[m]; fi != nil {
		return fi
	}
	if o := m.Origin(); o != nil && o != m {
		return P.byObj[o]
	}
	return nil
}

func (fi *FuncInfo) mentionsAtomicGhost() bool {
	for _, cl := range fi.fc.Ensures {
		if strings.Contains(cl.Text, "lastCas") || strings.Contains(cl.Text, "lastLoad") {
			return true
		}
	}
	return false
}

// historyActive: the function (or a function of the module it calls, transitively) calls through a
// `purefield` or calls a method whose contract has a `tallies` clause.
func (vc *VC) historyActive(fn *ssa.Function, seen map[*ssa.Function]bool) bool {
	if fn == nil || seen[fn] || len(seen) > 200 {
		return false
	}
	seen[fn] = true
	for _, b := range fn.Blocks {
		for _, in := range b.Instrs {
			ci, ok := in.(ssa.CallInstruction)
			if !ok {
				continue
			}
			c := ci.Common()
			if c.IsInvoke() {
				if g := vc.P.ifaceContract(c.Method); g != nil && (g.fc.Tallies != "" || g.fc.Counts) {
					return true
				}
				continue
			}
			if f := c.StaticCallee(); f != nil {
				if g := vc.P.contractFor(f); g != nil && g.fc.Tallies != "" {
					return true
				}
				if f.Pkg != nil && strings.HasPrefix(f.Pkg.Pkg.Path(), modPath) && vc.historyActive(f, seen) {
					return true
				}
				continue
			}
			if _, ok := vc.pureFieldOfValue(c.Value); ok {
				return true
			}
		}
	}
	for _, a := range fn.AnonFuncs {
		if vc.historyActive(a, seen) {
			return true
		}
	}
	return false
}
