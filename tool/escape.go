package main

// Callee-unreachable allocations. A slice made by this activation (make) that is only ever
// indexed, re-sliced, measured (len/cap), appended to in place of itself, merged by phis with
// other such values, and finally returned, cannot be reached by any function this activation
// calls: no callee ever receives a reference to its backing array. A call without contract
// havocs all memory of the element type; for these arrays the havoc is undone.
//
// The check is syntactic over the SSA referrers of the make instruction (flow-insensitive: if the
// slice escapes anywhere in the function it is treated as escaped everywhere).

import (
	"go/types"

	"golang.org/x/tools/go/ssa"
)

func (vc *VC) sliceUnreachable(x *ssa.MakeSlice) bool {
	if vc.unreach == nil {
		vc.unreach = map[*ssa.MakeSlice]bool{}
	}
	if r, ok := vc.unreach[x]; ok {
		return r
	}
	seen := map[ssa.Value]bool{}
	var addrOK func(a ssa.Value) bool
	addrOK = func(a ssa.Value) bool {
		refs := a.Referrers()
		if refs == nil {
			return false
		}
		for _, r := range *refs {
			switch u := r.(type) {
			case *ssa.UnOp:
				if u.X != a {
					return false
				}
			case *ssa.Store:
				if u.Addr != a || u.Val == a {
					return false
				}
			case *ssa.FieldAddr:
				if u.X != a || !addrOK(u) {
					return false
				}
			case *ssa.IndexAddr:
				if u.X != a || !addrOK(u) {
					return false
				}
			case *ssa.DebugRef:
			default:
				return false
			}
		}
		return true
	}
	var valOK func(v ssa.Value) bool
	valOK = func(v ssa.Value) bool {
		if seen[v] {
			return true
		}
		seen[v] = true
		refs := v.Referrers()
		if refs == nil {
			return false
		}
		for _, r := range *refs {
			switch u := r.(type) {
			case *ssa.IndexAddr:
				if u.X != v || !addrOK(u) {
					return false
				}
			case *ssa.Slice:
				if u.X != v || !valOK(u) {
					return false
				}
			case *ssa.Phi:
				if !valOK(u) {
					return false
				}
			case *ssa.Return, *ssa.DebugRef:
			case *ssa.Call:
				if f := u.Call.StaticCallee(); f != nil {
					if _, isMarker := markerOrdinal2(f); isMarker {
						continue // loop marker inserted by the overlay: not part of the program
					}
				}
				bi, ok := u.Call.Value.(*ssa.Builtin)
				if !ok {
					return false
				}
				switch bi.Name() {
				case "len", "cap":
				default:
					return false
				}
			default:
				return false
			}
		}
		return true
	}
	// elements that are themselves references could be loaded and passed on; only arrays of
	// reference-free elements are tracked
	et := x.Type().Underlying().(*types.Slice).Elem()
	res := len(vc.refTerms(et, "x", 0)) == 0 && !isInterface(et) && valOK(x)
	vc.unreach[x] = res
	return res
}

// keepUnreachable re-establishes, after a havoc caused by a call, the contents of the arrays
// that no callee can reach.
func (vc *VC) keepUnreachable(pre, st *State, reach Term) {
	for _, b := range vc.fn.Blocks {
		for _, in := range b.Instrs {
			ms, ok := in.(*ssa.MakeSlice)
			if !ok {
				continue
			}
			v, done := vc.vals[ms]
			if !done || v.t == "" || !vc.sliceUnreachable(ms) {
				continue
			}
			name, sort := vc.memName(ms.Type().Underlying().(*types.Slice).Elem())
			oldH, okOld := pre.heaps[name]
			newH, okNew := st.heaps[name]
			if !okOld || !okNew || oldH == newH {
				continue
			}
			_ = sort
			// guarded by "the make was executed on this path": on other paths the reference number may
			// belong to a different allocation
			g, okG := vc.reach[ms.Block()]
			if !okG {
				continue
			}
			vc.addAssume(g, eq(app("select", newH, slRef(v.t)), app("select", oldH, slRef(v.t))))
			vc.assume("arrays made by this activation that are only indexed, sliced, measured and returned (checked syntactically) are not reachable by callees: a call without contract leaves them unchanged")
		}
	}
}
