package main

// Minimal S-expression reader and evaluator for solver models (z3 and cvc5 `get-model` output).

import (
	"fmt"
	"math/big"
	"strings"
)

type Sexp struct {
	Atom string
	List []*Sexp
}

func (s *Sexp) isAtom() bool { return s.List == nil && s.Atom != "" }

func (s *Sexp) String() string {
	if s.List == nil {
		return s.Atom
	}
	var ps []string
	for _, x := range s.List {
		ps = append(ps, x.String())
	}
	return "(" + strings.Join(ps, " ") + ")"
}

func parseSexps(src string) []*Sexp {
	var out []*Sexp
	i := 0
	n := len(src)
	var parse func() *Sexp
	skip := func() {
		for i < n {
			c := src[i]
			if c == ' ' || c == '\n' || c == '\t' || c == '\r' {
				i++
			} else if c == ';' {
				for i < n && src[i] != '\n' {
					i++
				}
			} else {
				break
			}
		}
	}
	parse = func() *Sexp {
		skip()
		if i >= n {
			return nil
		}
		if src[i] == '(' {
			i++
			s := &Sexp{List: []*Sexp{}}
			for {
				skip()
				if i >= n {
					return s
				}
				if src[i] == ')' {
					i++
					return s
				}
				c := parse()
				if c == nil {
					return s
				}
				s.List = append(s.List, c)
			}
		}
		if src[i] == ')' {
			i++
			return nil
		}
		st := i
		if src[i] == '|' {
			i++
			for i < n && src[i] != '|' {
				i++
			}
			i++
			return &Sexp{Atom: src[st:i]}
		}
		if src[i] == '"' {
			i++
			for i < n && src[i] != '"' {
				i++
			}
			i++
			return &Sexp{Atom: src[st:i]}
		}
		for i < n && !strings.ContainsRune(" \n\t\r()", rune(src[i])) {
			i++
		}
		return &Sexp{Atom: src[st:i]}
	}
	for {
		skip()
		if i >= n {
			break
		}
		s := parse()
		if s != nil {
			out = append(out, s)
		}
	}
	return out
}

// Model maps constant names to their value expressions.
type Model struct {
	defs map[string]*Sexp
	funs map[string]*modelFun
}

type modelFun struct {
	params []string
	body   *Sexp
}

func parseModel(out string) *Model {
	m := &Model{defs: map[string]*Sexp{}, funs: map[string]*modelFun{}}
	// skip the first line (sat)
	if i := strings.Index(out, "\n"); i >= 0 {
		out = out[i+1:]
	}
	for _, top := range parseSexps(out) {
		items := top.List
		if len(items) > 0 && items[0].isAtom() && items[0].Atom == "model" {
			items = items[1:]
		}
		for _, d := range items {
			if len(d.List) == 5 && d.List[0].Atom == "define-fun" {
				name := d.List[1].Atom
				if len(d.List[2].List) == 0 {
					m.defs[name] = d.List[4]
				} else {
					var ps []string
					for _, p := range d.List[2].List {
						ps = append(ps, p.List[0].Atom)
					}
					m.funs[name] = &modelFun{ps, d.List[4]}
				}
			}
		}
	}
	return m
}

func (m *Model) get(name string) *Sexp {
	if s, ok := m.defs[name]; ok {
		return s
	}
	return nil
}

// intOf evaluates a ground integer expression.
func (m *Model) intOf(s *Sexp, env map[string]*Sexp) (*big.Int, bool) {
	if s == nil {
		return nil, false
	}
	if s.isAtom() {
		if v, ok := env[s.Atom]; ok {
			return m.intOf(v, nil)
		}
		if n, ok := new(big.Int).SetString(s.Atom, 10); ok {
			return n, true
		}
		if d := m.get(s.Atom); d != nil {
			return m.intOf(d, nil)
		}
		return nil, false
	}
	if len(s.List) == 0 {
		return nil, false
	}
	op := s.List[0].Atom
	switch op {
	case "-":
		if len(s.List) == 2 {
			v, ok := m.intOf(s.List[1], env)
			if !ok {
				return nil, false
			}
			return new(big.Int).Neg(v), true
		}
		a, ok1 := m.intOf(s.List[1], env)
		b, ok2 := m.intOf(s.List[2], env)
		if ok1 && ok2 {
			return new(big.Int).Sub(a, b), true
		}
	case "+":
		sum := big.NewInt(0)
		for _, x := range s.List[1:] {
			v, ok := m.intOf(x, env)
			if !ok {
				return nil, false
			}
			sum.Add(sum, v)
		}
		return sum, true
	case "*":
		p := big.NewInt(1)
		for _, x := range s.List[1:] {
			v, ok := m.intOf(x, env)
			if !ok {
				return nil, false
			}
			p.Mul(p, v)
		}
		return p, true
	case "ite":
		c, ok := m.boolOf(s.List[1], env)
		if !ok {
			return nil, false
		}
		if c {
			return m.intOf(s.List[2], env)
		}
		return m.intOf(s.List[3], env)
	case "select":
		v := m.selectArr(s.List[1], s.List[2], env)
		return m.intOf(v, env)
	}
	return nil, false
}

func (m *Model) boolOf(s *Sexp, env map[string]*Sexp) (bool, bool) {
	if s.isAtom() {
		switch s.Atom {
		case "true":
			return true, true
		case "false":
			return false, true
		}
		if v, ok := env[s.Atom]; ok {
			return m.boolOf(v, nil)
		}
		if d := m.get(s.Atom); d != nil {
			return m.boolOf(d, nil)
		}
		return false, false
	}
	op := s.List[0].Atom
	switch op {
	case "=":
		a, ok1 := m.intOf(s.List[1], env)
		b, ok2 := m.intOf(s.List[2], env)
		if ok1 && ok2 {
			return a.Cmp(b) == 0, true
		}
		return s.List[1].String() == s.List[2].String(), true
	case "<", "<=", ">", ">=":
		a, ok1 := m.intOf(s.List[1], env)
		b, ok2 := m.intOf(s.List[2], env)
		if !ok1 || !ok2 {
			return false, false
		}
		c := a.Cmp(b)
		switch op {
		case "<":
			return c < 0, true
		case "<=":
			return c <= 0, true
		case ">":
			return c > 0, true
		}
		return c >= 0, true
	case "not":
		v, ok := m.boolOf(s.List[1], env)
		return !v, ok
	case "and":
		for _, x := range s.List[1:] {
			v, ok := m.boolOf(x, env)
			if !ok {
				return false, false
			}
			if !v {
				return false, true
			}
		}
		return true, true
	case "or":
		for _, x := range s.List[1:] {
			v, ok := m.boolOf(x, env)
			if !ok {
				return false, false
			}
			if v {
				return true, true
			}
		}
		return false, true
	}
	return false, false
}

// selectArr evaluates (select arr idx) for array value expressions built from
// ((as const T) v), (store a i v), (lambda ((x Int)) body), (_ as-array f), named constants.
func (m *Model) selectArr(arr, idx *Sexp, env map[string]*Sexp) *Sexp {
	for depth := 0; depth < 100000; depth++ {
		if arr == nil {
			return nil
		}
		if arr.isAtom() {
			if v, ok := env[arr.Atom]; ok {
				arr = v
				continue
			}
			d := m.get(arr.Atom)
			if d == nil {
				return nil
			}
			arr = d
			continue
		}
		if len(arr.List) == 2 && !arr.List[0].isAtom() && len(arr.List[0].List) == 3 && arr.List[0].List[0].Atom == "as" && arr.List[0].List[1].Atom == "const" {
			return arr.List[1]
		}
		if len(arr.List) == 4 && arr.List[0].Atom == "store" {
			i1, ok1 := m.intOf(arr.List[2], env)
			i2, ok2 := m.intOf(idx, env)
			if ok1 && ok2 {
				if i1.Cmp(i2) == 0 {
					return arr.List[3]
				}
				arr = arr.List[1]
				continue
			}
			if arr.List[2].String() == idx.String() {
				return arr.List[3]
			}
			arr = arr.List[1]
			continue
		}
		if len(arr.List) == 3 && arr.List[0].Atom == "lambda" {
			p := arr.List[1].List[0].List[0].Atom
			e2 := map[string]*Sexp{}
			for k, v := range env {
				e2[k] = v
			}
			iv, _ := m.intOf(idx, env)
			if iv != nil {
				e2[p] = &Sexp{Atom: iv.String()}
			} else {
				e2[p] = idx
			}
			return m.reduce(arr.List[2], e2)
		}
		if len(arr.List) == 3 && arr.List[0].Atom == "_" && arr.List[1].Atom == "as-array" {
			f := m.funs[arr.List[2].Atom]
			if f == nil {
				return nil
			}
			e2 := map[string]*Sexp{f.params[0]: idx}
			return m.reduce(f.body, e2)
		}
		if len(arr.List) == 4 && arr.List[0].Atom == "ite" {
			c, ok := m.boolOf(arr.List[1], env)
			if !ok {
				return nil
			}
			if c {
				arr = arr.List[2]
			} else {
				arr = arr.List[3]
			}
			continue
		}
		if len(arr.List) == 3 && arr.List[0].Atom == "select" {
			arr = m.selectArr(arr.List[1], arr.List[2], env)
			continue
		}
		return nil
	}
	return nil
}

// reduce partially evaluates ite / let-free bodies under env.
func (m *Model) reduce(s *Sexp, env map[string]*Sexp) *Sexp {
	if s.isAtom() {
		if v, ok := env[s.Atom]; ok {
			return v
		}
		return s
	}
	if len(s.List) == 4 && s.List[0].Atom == "ite" {
		c, ok := m.boolOf(s.List[1], env)
		if ok {
			if c {
				return m.reduce(s.List[2], env)
			}
			return m.reduce(s.List[3], env)
		}
	}
	if v, ok := m.intOf(s, env); ok {
		if v.Sign() < 0 {
			return &Sexp{List: []*Sexp{{Atom: "-"}, {Atom: new(big.Int).Neg(v).String()}}}
		}
		return &Sexp{Atom: v.String()}
	}
	out := &Sexp{}
	for _, x := range s.List {
		out.List = append(out.List, m.reduce(x, env))
	}
	return out
}

func (m *Model) resolve(s *Sexp) *Sexp {
	for i := 0; i < 100 && s != nil && s.isAtom(); i++ {
		d := m.get(s.Atom)
		if d == nil {
			break
		}
		s = d
	}
	return s
}

var _ = fmt.Sprint
