package main

// Assumed contracts for functions outside the repository (DESIGN.md §5). Each use is logged
// in the evidence file as an assumption.

import (
	"go/token"
	"go/types"
	"math/big"
	"strings"

	"golang.org/x/tools/go/ssa"
)

// recvOnly: external methods assumed to touch only the object their receiver points to.
var recvOnly = map[string]bool{
	"(*bytes.Buffer).WriteByte": true, "(*bytes.Buffer).Write": true, "(*bytes.Buffer).WriteString": true,
	"(*bytes.Buffer).String": true, "(*bytes.Buffer).Len": true, "(*bytes.Buffer).WriteRune": true, "(*bytes.Buffer).Bytes": true,
	"(*strings.Builder).WriteByte": true, "(*strings.Builder).WriteString": true, "(*strings.Builder).String": true,
	"(*strings.Builder).Len": true, "(*strings.Builder).WriteRune": true, "(*strings.Builder).Write": true, "(*strings.Builder).Grow": true,
	"(*sync.Mutex).Lock": true, "(*sync.Mutex).Unlock": true, "(*sync.RWMutex).Lock": true, "(*sync.RWMutex).Unlock": true,
	"(*sync.RWMutex).RLock": true, "(*sync.RWMutex).RUnlock": true,
}

func (vc *VC) runeLenTerm(r Term) Term {
	return ite(app("<", r, "0"), "(- 1)",
		ite(app("<=", r, "127"), "1",
			ite(app("<=", r, "2047"), "2",
				ite(and(app("<=", "55296", r), app("<=", r, "57343")), "(- 1)",
					ite(app("<=", r, "65535"), "3",
						ite(app("<=", r, "1114111"), "4", "(- 1)"))))))
}

func (vc *VC) stdlibModel(name string, c *ssa.CallCommon, args []Val, st *State, reach Term, rt types.Type, pos token.Pos) (Val, bool) {
	if name == "fmt.Sprintf" && len(c.Args) == 2 {
		// fmt.Sprintf("%v", x): the default rendering of one value is a deterministic function of the value
		// (named FmtV in contracts); nothing else is assumed about it
		if k, ok := c.Args[0].(*ssa.Const); ok && k.Value != nil && k.Value.ExactString() == `"%v"` {
			if n, _, isConst := constLenSlice(c.Args[1]); isConst && n == 1 {
				hn, sort := vc.memName(types.NewInterfaceType(nil, nil))
				elem := app("select", app("select", vc.heapGet(st, hn, sort), slRef(args[1].t)), slOff(args[1].t))
				f := vc.declareFun(sym("spec.FmtV"), []string{"Dyn"}, "Str")
				r := app(f, elem)
				vc.addAssume("true", vc.typeFacts(nil, rt, r, 0))
				vc.assume("assumed deterministic, total and free of side effects (external): fmt.Sprintf(\"%v\", x), named FmtV(x)")
				return Val{t: r, typ: rt}, true
			}
		}
	}
	switch name {
	case "reflect.TypeOf":
		// the dynamic type of an interface value: nil exactly for the nil interface
		r := vc.freshTyped(st, "rtype", rt, reach)
		vc.addAssume(reach, eq(app("(_ is dnil)", r.t), app("(_ is dnil)", args[0].t)))
		vc.assume("assumed contract: reflect.TypeOf(x) is nil exactly when x is the nil interface; no effect")
		return r, true
	case "math/bits.Mul64":
		hi := vc.freshConst("mulhi", "Int")
		lo := vc.freshConst("mullo", "Int")
		two64 := "18446744073709551616"
		vc.addAssume(reach, and(app("<=", "0", hi), app("<", hi, two64), app("<=", "0", lo), app("<", lo, two64),
			eq(app("+", app("*", hi, two64), lo), app("*", args[0].t, args[1].t))))
		vc.assume("assumed contract: bits.Mul64(x, y) = (hi, lo) with hi*2^64 + lo == x*y")
		return Val{tuple: []Val{{t: hi, typ: types.Typ[types.Uint64]}, {t: lo, typ: types.Typ[types.Uint64]}}, typ: rt}, true
	case "unicode/utf8.RuneLen":
		vc.assume("assumed contract: utf8.RuneLen = -1 for negative, surrogate and > 0x10FFFF runes, else 1..4 by range")
		return Val{t: vc.runeLenTerm(args[0].t), typ: rt}, true
	case "unicode/utf8.DecodeRuneInString":
		// deterministic: the rune and the size are functions of the string (named utf8rune / utf8size in contracts)
		r, w := vc.utf8Decode(args[0].t, reach)
		vc.assume("assumed contract: utf8.DecodeRuneInString is a function of the string: empty -> (RuneError,0); else 1 <= size <= min(4,len); ASCII decodes to itself; invalid -> (RuneError,1); valid multi-byte -> size = RuneLen(r)")
		return Val{tuple: []Val{{t: r, typ: types.Typ[types.Rune]}, {t: w, typ: types.Typ[types.Int]}}, typ: rt}, true
	case "unicode/utf8.DecodeRune":
		n := slLen(args[0].t)
		hn, sort := vc.memName(types.Typ[types.Uint8])
		first := app("select", app("select", vc.heapGet(st, hn, sort), slRef(args[0].t)), slOff(args[0].t))
		r := vc.freshConst("rune", "Int")
		w := vc.freshConst("size", "Int")
		vc.addAssume(reach, utf8DecodeFacts(vc, n, first, r, w))
		vc.assume("assumed contract: utf8.DecodeRune[InString]: empty -> (RuneError,0); else 1 <= size <= min(4,len); ASCII decodes to itself; invalid -> (RuneError,1); valid multi-byte -> size = RuneLen(r)")
		return Val{tuple: []Val{{t: r, typ: types.Typ[types.Rune]}, {t: w, typ: types.Typ[types.Int]}}, typ: rt}, true
	case "unicode/utf8.EncodeRune":
		// writes n bytes into p; panics if p is too short
		p, r := args[0].t, args[1].t
		rl := vc.runeLenTerm(r)
		need := vc.define("need", "Int", ite(eq(rl, "(- 1)"), "3", rl))
		vc.oblige("safe:index", "utf8.EncodeRune", reach, app(">=", slLen(p), need), pos, vc.construct(pos))
		hn, sort := vc.memName(types.Typ[types.Uint8])
		h := vc.heapGet(st, hn, sort)
		arr := vc.freshConst("encarr", "(Array Int Int)")
		old := app("select", h, slRef(p))
		vc.quantCtx = true
		vc.addAssume(reach, "(forall ((j Int)) (! (and (=> (or (< j "+slOff(p)+") (>= j (+ "+slOff(p)+" "+need+"))) (= (select "+arr+" j) (select "+old+" j))) (<= 0 (select "+arr+" j) 255)) :pattern ((select "+arr+" j))))")
		vc.heapSet(st, hn, sort, app("store", h, slRef(p), arr))
		vc.assume("assumed contract: utf8.EncodeRune writes RuneLen(r) bytes (3 for invalid runes) at the start of p, panics if p is shorter")
		return Val{t: need, typ: rt}, true
	case "encoding/hex.Decode":
		d, s := args[0].t, args[1].t
		half := vc.define("half", "Int", app("div", slLen(s), "2"))
		vc.oblige("safe:index", "hex.Decode", reach, app(">=", slLen(d), half), pos, vc.construct(pos))
		hn, sort := vc.memName(types.Typ[types.Uint8])
		h := vc.heapGet(st, hn, sort)
		arr := vc.freshConst("hexarr", "(Array Int Int)")
		old := app("select", h, slRef(d))
		vc.quantCtx = true
		vc.addAssume(reach, "(forall ((j Int)) (! (and (=> (or (< j "+slOff(d)+") (>= j (+ "+slOff(d)+" "+half+"))) (= (select "+arr+" j) (select "+old+" j))) (<= 0 (select "+arr+" j) 255)) :pattern ((select "+arr+" j))))")
		vc.heapSet(st, hn, sort, app("store", h, slRef(d), arr))
		n := vc.freshConst("hexn", "Int")
		e := vc.freshConst("hexerr", "Dyn")
		vc.addAssume(reach, and(app("<=", "0", n), app("<=", n, half),
			implies(app("(_ is dnil)", e), and(eq(n, half), eq(app("mod", slLen(s), "2"), "0")))))
		vc.assume("assumed contract: hex.Decode writes at most len(src)/2 bytes into dst (panics if dst is shorter); err == nil implies n == len(src)/2 and len(src) even")
		return Val{tuple: []Val{{t: n, typ: types.Typ[types.Int]}, {t: e, typ: rt.(*types.Tuple).At(1).Type()}}, typ: rt}, true
	}
	if r, ok := vc.binaryModel(name, args, st, reach, rt, pos); ok {
		return r, true
	}
	if name == "context.WithCancel" {
		vc.assume("assumed contract: context.WithCancel returns a non-nil context and a non-nil cancel function, and writes nothing the caller can see")
		tup := rt.(*types.Tuple)
		c := vc.freshTyped(st, "cancelctx", tup.At(0).Type(), reach)
		vc.addAssume(reach, not(app("(_ is dnil)", c.t)))
		f := vc.freshRef(st, "cancelfn")
		return Val{tuple: []Val{c, {t: f, typ: tup.At(1).Type()}}, typ: rt}, true
	}
	if name == "strconv.AppendInt" || name == "strconv.AppendUint" {
		return vc.appendIntModel(args, st, reach, rt), true
	}
	if recvOnly[name] && len(args) > 0 {
		vc.assume("assumed frame: " + name + " touches only its receiver object and does not panic")
		lv := vc.lvOf(args[0])
		vc.nilCheck(lv, reach, pos, "method call on nil receiver")
		if strings.HasPrefix(name, "(*sync.") {
			// a mutex has no state a contract can read: locking changes nothing visible
			// (the struct it is embedded in must not be havocked along with it)
			return vc.freshTyped(st, "call", rt, reach), true
		}
		vc.havocHeap(st, lv.rootHeap())
		vc.havocHeap(st, "alloc")
		return vc.freshTyped(st, "call", rt, reach), true
	}
	return Val{}, false
}

// binaryModel: encoding/binary byte-order methods. UintN(b) panics unless len(b) >= N/8 and is the
// little/big-endian value of the first N/8 bytes; PutUintN(b, v) panics unless len(b) >= N/8 and
// writes exactly those bytes.
func (vc *VC) binaryModel(name string, args []Val, st *State, reach Term, rt types.Type, pos token.Pos) (Val, bool) {
	var bigEnd bool
	switch {
	case strings.HasPrefix(name, "(encoding/binary.littleEndian)."):
	case strings.HasPrefix(name, "(encoding/binary.bigEndian)."):
		bigEnd = true
	default:
		return Val{}, false
	}
	m := name[strings.LastIndex(name, ".")+1:]
	put := strings.HasPrefix(m, "Put")
	var n int
	switch strings.TrimPrefix(m, "Put") {
	case "Uint16":
		n = 2
	case "Uint32":
		n = 4
	case "Uint64":
		n = 8
	default:
		return Val{}, false
	}
	// args[0] is the (empty struct) receiver
	b := args[1].t
	vc.oblige("safe:index", "binary."+m, reach, app(">=", slLen(b), num(int64(n))), pos, vc.construct(pos))
	hn, sort := vc.memName(types.Typ[types.Uint8])
	h := vc.heapGet(st, hn, sort)
	arr := app("select", h, slRef(b))
	weight := func(i int) *big.Int {
		k := i
		if bigEnd {
			k = n - 1 - i
		}
		return pow2(int64(8 * k))
	}
	if !put {
		var sum []Term
		for i := 0; i < n; i++ {
			sum = append(sum, app("*", bigNum(weight(i)), app("select", arr, add(slOff(b), num(int64(i))))))
		}
		vc.assume("assumed contract: encoding/binary " + m + " reads the first bytes of its argument in the stated byte order and panics if it is shorter")
		return Val{t: vc.define("bin", "Int", app("+", sum...)), typ: rt}, true
	}
	v := args[2].t
	narr := arr
	// the bytes of v: fresh constants b_i in [0,255] with v == sum b_i * 256^k (they exist and are unique for
	// 0 <= v < 2^N, which the unsigned type of v guarantees; stated this way the solver needs no div/mod reasoning)
	var sum []Term
	var rng []Term
	for i := 0; i < n; i++ {
		byteI := vc.freshConst("byte", "Int")
		rng = append(rng, app("<=", "0", byteI), app("<=", byteI, "255"))
		sum = append(sum, app("*", bigNum(weight(i)), byteI))
		narr = app("store", narr, add(slOff(b), num(int64(i))), byteI)
	}
	vc.addAssume(reach, and(append(rng, eq(v, app("+", sum...)))...))
	vc.heapSet(st, hn, sort, app("store", h, slRef(b), narr))
	vc.assume("assumed contract: encoding/binary " + m + " writes the bytes of its argument in the stated byte order and panics if the destination is shorter")
	return Val{typ: rt}, true
}

// appendIntModel: strconv.AppendInt(dst, i, base) returns dst followed by the text of i. For base 10
// the number of characters is the number of decimal digits of |i| (plus one for a minus sign) and every
// character is a digit or '-'; the characters are written into dst's spare capacity when it suffices
// (same backing array, nothing else changes), otherwise into a new array.
func (vc *VC) appendIntModel(args []Val, st *State, reach Term, rt types.Type) Val {
	dst, v, base := args[0].t, args[1].t, args[2].t
	abs := vc.define("absv", "Int", ite(app("<", v, "0"), app("-", v), v))
	nd := "20"
	p := new(big.Int).Exp(big.NewInt(10), big.NewInt(19), nil)
	for k := 19; k >= 1; k-- {
		nd = ite(app("<", abs, bigNum(p)), num(int64(k)), nd)
		p = new(big.Int).Div(p, big.NewInt(10))
	}
	n := vc.freshConst("nchars", "Int")
	vc.addAssume("true", and(app("<=", "1", n), app("<=", n, "65"),
		implies(eq(base, "10"), eq(n, app("+", nd, ite(app("<", v, "0"), "1", "0"))))))
	hn, sort := vc.memName(types.Typ[types.Uint8])
	h := vc.heapGet(st, hn, sort)
	start := vc.define("appstart", "Int", add(slOff(dst), slLen(dst)))
	inPlace := vc.define("inplace", "Bool", app("<=", app("+", slLen(dst), n), slCap(dst)))
	arr := vc.freshConst("apparr", "(Array Int Int)")
	fresh := vc.freshRef(st, "appint.ref")
	oldArr := app("select", h, slRef(dst))
	vc.quantCtx = true
	// in place: bytes outside [start, start+n) unchanged; new array: prefix copied
	vc.addAssume("true", "(forall ((j Int)) (! (and (<= 0 (select "+arr+" j) 255)"+
		" (=> (and "+inPlace+" (or (< j "+start+") (>= j (+ "+start+" "+n+")))) (= (select "+arr+" j) (select "+oldArr+" j)))"+
		" (=> (and (not "+inPlace+") (<= 0 j) (< j "+slLen(dst)+")) (= (select "+arr+" j) (select "+oldArr+" (+ "+slOff(dst)+" j))))"+
		" (=> (and "+inPlace+" (<= "+start+" j) (< j (+ "+start+" "+n+")) (= "+base+" 10)) (or (= (select "+arr+" j) 45) (and (<= 48 (select "+arr+" j)) (<= (select "+arr+" j) 57))))"+
		") :pattern ((select "+arr+" j))))")
	ncap := vc.freshConst("appcap", "Int")
	vc.addAssume("true", and(app("<=", app("+", slLen(dst), n), ncap), app("<=", ncap, maxLen)))
	res := vc.define("appint", "Slice", ite(inPlace,
		app("mkslice", slRef(dst), slOff(dst), app("+", slLen(dst), n), slCap(dst)),
		app("mkslice", fresh, "0", app("+", slLen(dst), n), ncap)))
	vc.heapSet(st, hn, sort, ite(inPlace, app("store", h, slRef(dst), arr), app("store", h, fresh, arr)))
	vc.assume("assumed contract: strconv.AppendInt(dst, i, 10) appends the decimal digits of i (count = number of decimal digits, plus a sign), in place when cap(dst) suffices, else into a new array; it touches nothing else")
	return Val{t: res, typ: rt}
}

func utf8DecodeFacts(vc *VC, n, first, r, w Term) Term {
	return and(
		implies(eq(n, "0"), and(eq(r, "65533"), eq(w, "0"))),
		implies(app(">", n, "0"), and(app("<=", "1", w), app("<=", w, "4"), app("<=", w, n),
			app("<=", "0", r), app("<=", r, "1114111"),
			implies(app("<", first, "128"), and(eq(r, first), eq(w, "1"))),
			implies(app(">=", first, "128"), or(and(eq(r, "65533"), eq(w, "1")), and(app(">=", r, "128"), app(">=", w, "2"), eq(w, vc.runeLenTerm(r))))),
		)))
}

// utf8Decode: rune and size of the first code point of string s as uninterpreted functions of s, with the
// facts of the utf8.DecodeRuneInString contract for this s.
func (vc *VC) utf8Decode(s Term, reach Term) (Term, Term) {
	fr := vc.declareFun("ext.utf8.rune", []string{"Str"}, "Int")
	fw := vc.declareFun("ext.utf8.size", []string{"Str"}, "Int")
	r, w := app(fr, s), app(fw, s)
	if !vc.noDefine {
		vc.addAssume(reach, utf8DecodeFacts(vc, strLen(s), strAt(s, "0"), r, w))
	}
	return r, w
}
