package main

// Assumed contracts for functions outside the repository (DESIGN.md §5). Each use is logged
// in the evidence file as an assumption.

import (
	"go/token"
	"go/types"

	"golang.org/x/tools/go/ssa"
)

// recvOnly: external methods assumed to touch only the object their receiver points to.
var recvOnly = map[string]bool{
	"(*bytes.Buffer).WriteByte": true, "(*bytes.Buffer).Write": true, "(*bytes.Buffer).WriteString": true,
	"(*bytes.Buffer).String": true, "(*bytes.Buffer).Len": true, "(*bytes.Buffer).WriteRune": true, "(*bytes.Buffer).Bytes": true,
	"(*strings.Builder).WriteByte": true, "(*strings.Builder).WriteString": true, "(*strings.Builder).String": true,
	"(*strings.Builder).Len": true, "(*strings.Builder).WriteRune": true, "(*strings.Builder).Write": true, "(*strings.Builder).Grow": true,
	"(*sync.Mutex).Lock": true, "(*sync.Mutex).Unlock": true, "(*sync.RWMutex).Lock": true, "(*sync.RWMutex).Unlock": true,
	"(*sync.RWMutex).RLock": true, "(*sync.RWMutex).RUnlock": true,
}

func (vc *VC) runeLenTerm(r Term) Term {
	return ite(app("<", r, "0"), "(- 1)",
		ite(app("<=", r, "127"), "1",
			ite(app("<=", r, "2047"), "2",
				ite(and(app("<=", "55296", r), app("<=", r, "57343")), "(- 1)",
					ite(app("<=", r, "65535"), "3",
						ite(app("<=", r, "1114111"), "4", "(- 1)"))))))
}

func (vc *VC) stdlibModel(name string, c *ssa.CallCommon, args []Val, st *State, reach Term, rt types.Type, pos token.Pos) (Val, bool) {
	switch name {
	case "math/bits.Mul64":
		hi := vc.freshConst("mulhi", "Int")
		lo := vc.freshConst("mullo", "Int")
		two64 := "18446744073709551616"
		vc.addAssume(reach, and(app("<=", "0", hi), app("<", hi, two64), app("<=", "0", lo), app("<", lo, two64),
			eq(app("+", app("*", hi, two64), lo), app("*", args[0].t, args[1].t))))
		vc.assume("assumed contract: bits.Mul64(x, y) = (hi, lo) with hi*2^64 + lo == x*y")
		return Val{tuple: []Val{{t: hi, typ: types.Typ[types.Uint64]}, {t: lo, typ: types.Typ[types.Uint64]}}, typ: rt}, true
	case "unicode/utf8.RuneLen":
		vc.assume("assumed contract: utf8.RuneLen = -1 for negative, surrogate and > 0x10FFFF runes, else 1..4 by range")
		return Val{t: vc.runeLenTerm(args[0].t), typ: rt}, true
	case "unicode/utf8.DecodeRune", "unicode/utf8.DecodeRuneInString":
		var n Term
		var first Term
		if name == "unicode/utf8.DecodeRune" {
			n = slLen(args[0].t)
			hn, sort := vc.memName(types.Typ[types.Uint8])
			first = app("select", app("select", vc.heapGet(st, hn, sort), slRef(args[0].t)), slOff(args[0].t))
		} else {
			n = strLen(args[0].t)
			first = strAt(args[0].t, "0")
		}
		r := vc.freshConst("rune", "Int")
		w := vc.freshConst("size", "Int")
		vc.addAssume(reach, and(
			implies(eq(n, "0"), and(eq(r, "65533"), eq(w, "0"))),
			implies(app(">", n, "0"), and(app("<=", "1", w), app("<=", w, "4"), app("<=", w, n),
				app("<=", "0", r), app("<=", r, "1114111"),
				implies(app("<", first, "128"), and(eq(r, first), eq(w, "1"))),
				implies(app(">=", first, "128"), or(and(eq(r, "65533"), eq(w, "1")), and(app(">=", r, "128"), app(">=", w, "2"), eq(w, vc.runeLenTerm(r))))),
			))))
		vc.assume("assumed contract: utf8.DecodeRune[InString]: empty -> (RuneError,0); else 1 <= size <= min(4,len); ASCII decodes to itself; invalid -> (RuneError,1); valid multi-byte -> size = RuneLen(r)")
		return Val{tuple: []Val{{t: r, typ: types.Typ[types.Rune]}, {t: w, typ: types.Typ[types.Int]}}, typ: rt}, true
	case "unicode/utf8.EncodeRune":
		// writes n bytes into p; panics if p is too short
		p, r := args[0].t, args[1].t
		rl := vc.runeLenTerm(r)
		need := vc.define("need", "Int", ite(eq(rl, "(- 1)"), "3", rl))
		vc.oblige("safe:index", "utf8.EncodeRune", reach, app(">=", slLen(p), need), pos, vc.construct(pos))
		hn, sort := vc.memName(types.Typ[types.Uint8])
		h := vc.heapGet(st, hn, sort)
		arr := vc.freshConst("encarr", "(Array Int Int)")
		old := app("select", h, slRef(p))
		vc.quantCtx = true
		vc.addAssume(reach, "(forall ((j Int)) (! (and (=> (or (< j "+slOff(p)+") (>= j (+ "+slOff(p)+" "+need+"))) (= (select "+arr+" j) (select "+old+" j))) (<= 0 (select "+arr+" j) 255)) :pattern ((select "+arr+" j))))")
		vc.heapSet(st, hn, sort, app("store", h, slRef(p), arr))
		vc.assume("assumed contract: utf8.EncodeRune writes RuneLen(r) bytes (3 for invalid runes) at the start of p, panics if p is shorter")
		return Val{t: need, typ: rt}, true
	case "encoding/hex.Decode":
		d, s := args[0].t, args[1].t
		half := vc.define("half", "Int", app("div", slLen(s), "2"))
		vc.oblige("safe:index", "hex.Decode", reach, app(">=", slLen(d), half), pos, vc.construct(pos))
		hn, sort := vc.memName(types.Typ[types.Uint8])
		h := vc.heapGet(st, hn, sort)
		arr := vc.freshConst("hexarr", "(Array Int Int)")
		old := app("select", h, slRef(d))
		vc.quantCtx = true
		vc.addAssume(reach, "(forall ((j Int)) (! (and (=> (or (< j "+slOff(d)+") (>= j (+ "+slOff(d)+" "+half+"))) (= (select "+arr+" j) (select "+old+" j))) (<= 0 (select "+arr+" j) 255)) :pattern ((select "+arr+" j))))")
		vc.heapSet(st, hn, sort, app("store", h, slRef(d), arr))
		n := vc.freshConst("hexn", "Int")
		e := vc.freshConst("hexerr", "Dyn")
		vc.addAssume(reach, and(app("<=", "0", n), app("<=", n, half),
			implies(app("(_ is dnil)", e), and(eq(n, half), eq(app("mod", slLen(s), "2"), "0")))))
		vc.assume("assumed contract: hex.Decode writes at most len(src)/2 bytes into dst (panics if dst is shorter); err == nil implies n == len(src)/2 and len(src) even")
		return Val{tuple: []Val{{t: n, typ: types.Typ[types.Int]}, {t: e, typ: rt.(*types.Tuple).At(1).Type()}}, typ: rt}, true
	}
	if recvOnly[name] && len(args) > 0 {
		vc.assume("assumed frame: " + name + " touches only its receiver object and does not panic")
		lv := vc.lvOf(args[0])
		vc.nilCheck(lv, reach, pos, "method call on nil receiver")
		vc.havocHeap(st, lv.rootHeap())
		vc.havocHeap(st, "alloc")
		return vc.freshTyped(st, "call", rt, reach), true
	}
	return Val{}, false
}
