package main

// Contract expressions (type-checked Go ASTs) -> SMT terms.
// Semantics differ from executable Go in three stated ways (DESIGN.md §3.2):
// integer arithmetic is mathematical (never wraps) and integer conversions preserve the
// value; expressions are total (no safety obligations); forall/exists are SMT quantifiers.

import (
	"fmt"
	"go/ast"
	"go/constant"
	"go/token"
	"go/types"
	"math/big"
	"sort"
	"strings"

	"golang.org/x/tools/go/ssa"
)

type exprTr struct {
	vc    *VC
	info  *types.Info
	env   []map[string]Val
	st    *State
	old   *State
	fi    *FuncInfo
	depth int
	unfolding *types.Func
	reveal    map[*types.Func]bool // spec functions translated by their body although opaque (heap-read probing)
	structEq  bool                 // "names" clauses: string equality is identity of the value
}

func (vc *VC) clauseTerm(fi *FuncInfo, cl *Clause, env map[string]Val, res map[string]Val, st, old *State) Term {
	return vc.clauseVal(fi, cl, env, res, st, old).t
}

func (vc *VC) clauseVal(fi *FuncInfo, cl *Clause, env map[string]Val, res map[string]Val, st, old *State) Val {
	ce, err := vc.P.checkClause(fi, cl)
	if err != nil {
		panic(unsupported{err.Error()})
	}
	if cl.Hint {
		if bad := hintShape(ce.expr); bad != "" {
			panic(unsupported{fmt.Sprintf("%s:%d: a hint may only combine unfold(f(...)) atoms with &&, ==> and bounded forall (found %s)", cl.File, cl.Line, bad)})
		}
	}
	m := map[string]Val{}
	for k, v := range env {
		m[k] = v
	}
	for k, v := range res {
		m[k] = v
	}
	ex := &exprTr{vc: vc, info: ce.info, env: []map[string]Val{m}, st: st, old: old, fi: fi, structEq: cl.NameOnly}
	return ex.tr(ce.expr)
}

func (ex *exprTr) lookup(name string) (Val, bool) {
	for i := len(ex.env) - 1; i >= 0; i-- {
		if v, ok := ex.env[i][name]; ok {
			return v, true
		}
	}
	return Val{}, false
}

func (ex *exprTr) typeOf(e ast.Expr) types.Type {
	tv, ok := ex.info.Types[e]
	if !ok {
		if id, ok := e.(*ast.Ident); ok {
			if o := ex.info.Uses[id]; o != nil {
				return o.Type()
			}
			if o := ex.info.Defs[id]; o != nil {
				return o.Type()
			}
		}
		ex.vc.fail("contract: no type for %s", nodeStr(ex.vc.P.fset, e))
	}
	t := tv.Type
	if b, ok := t.(*types.Basic); ok && b.Info()&types.IsUntyped != 0 && b.Kind() != types.UntypedNil {
		return types.Default(t)
	}
	return t
}

func (ex *exprTr) constVal(t types.Type, v constant.Value) Val {
	vc := ex.vc
	switch v.Kind() {
	case constant.Bool:
		if constant.BoolVal(v) {
			return Val{t: "true", typ: t}
		}
		return Val{t: "false", typ: t}
	case constant.Int:
		if isFloat(t) {
			return Val{t: vc.floatConst(v.ExactString()), typ: t}
		}
		bi, ok := constant.Val(v).(*big.Int)
		if !ok {
			i64, _ := constant.Int64Val(v)
			return Val{t: num(i64), typ: t}
		}
		return Val{t: bigNum(bi), typ: t}
	case constant.String:
		return Val{t: vc.strConstTerm(constant.StringVal(v)), typ: t}
	case constant.Float:
		if _, _, isInt := intInfo(t); isInt {
			if iv := constant.ToInt(v); iv.Kind() == constant.Int {
				return ex.constVal(t, iv)
			}
		}
		return Val{t: vc.floatConst(v.ExactString()), typ: t}
	}
	vc.fail("contract: constant kind %v", v.Kind())
	return Val{}
}

func (ex *exprTr) tr(e ast.Expr) Val {
	vc := ex.vc
	if tv, ok := ex.info.Types[e]; ok && tv.Value != nil {
		return ex.constVal(ex.typeOf(e), tv.Value)
	}
	switch x := e.(type) {
	case *ast.ParenExpr:
		return ex.tr(x.X)
	case *ast.Ident:
		if v, ok := ex.lookup(x.Name); ok {
			return v
		}
		switch x.Name {
		case "nil":
			t := ex.typeOf(e)
			if b, ok := t.(*types.Basic); ok && b.Kind() == types.UntypedNil {
				return Val{t: "NIL", typ: t}
			}
			return Val{t: vc.S.zero(t), typ: t}
		case "true", "false":
			return Val{t: x.Name, typ: types.Typ[types.Bool]}
		}
		if o, ok := ex.info.Uses[x].(*types.Var); ok && o.Pkg() != nil && o.Parent() == o.Pkg().Scope() {
			return ex.global(o)
		}
		// a variable of the enclosing function captured by a function literal: its current value
		if vc.fn != nil {
			for _, fv := range vc.fn.FreeVars {
				if fv.Name() == x.Name {
					if cell, ok := vc.vals[fv]; ok {
						return Val{t: vc.load(ex.st, vc.lvOf(cell)), typ: ex.typeOf(e)}
					}
				}
			}
		}
		vc.fail("contract: identifier %s is not a parameter, result, marker variable or global", x.Name)
	case *ast.SelectorExpr:
		if sel, ok := ex.info.Selections[x]; ok {
			if sel.Kind() != types.FieldVal {
				vc.fail("contract: method value %s not supported", x.Sel.Name)
			}
			base := ex.tr(x.X)
			return ex.fieldPath(base, sel.Index())
		}
		// qualified identifier
		if o, ok := ex.info.Uses[x.Sel].(*types.Var); ok {
			return ex.global(o)
		}
		vc.fail("contract: selector %s", nodeStr(vc.P.fset, x))
	case *ast.StarExpr:
		p := ex.tr(x.X)
		return Val{t: vc.load(ex.st, vc.lvOf(p)), typ: ex.typeOf(e)}
	case *ast.UnaryExpr:
		a := ex.tr(x.X)
		switch x.Op {
		case token.NOT:
			return Val{t: not(a.t), typ: a.typ}
		case token.SUB:
			if isFloat(a.typ) {
				f := vc.declareFun("f64.neg", []string{"F64"}, "F64")
				return Val{t: app(f, a.t), typ: a.typ}
			}
			return Val{t: app("-", a.t), typ: a.typ}
		case token.ADD:
			return a
		}
		vc.fail("contract: unary %s", x.Op)
	case *ast.BinaryExpr:
		return ex.binary(x)
	case *ast.IndexExpr:
		base := ex.tr(x.X)
		idx := ex.tr(x.Index)
		rt := ex.typeOf(e)
		switch t := base.typ.Underlying().(type) {
		case *types.Slice:
			name, sort := vc.memName(t.Elem())
			return Val{t: app("select", app("select", vc.heapGet(ex.st, name, sort), slRef(base.t)), vc.elemIx(slOff(base.t), idx.t)), typ: rt}
		case *types.Array:
			return Val{t: app("select", base.t, idx.t), typ: rt}
		case *types.Basic:
			return Val{t: strAt(base.t, idx.t), typ: rt}
		case *types.Map:
			name, sort, ms := vc.mapHeapName(t)
			m := app("select", vc.heapGet(ex.st, name, sort), base.t)
			k := vc.mapKeyTerm(ex.coerce(idx, t.Key()), t.Key())
			return Val{t: ite(app("select", app(ms.present(), m), k), app("select", app(ms.vals(), m), k), vc.S.zero(t.Elem())), typ: rt}
		case *types.Pointer:
			at := t.Elem().Underlying().(*types.Array)
			lv := vc.lvOf(base)
			return Val{t: app("select", vc.load(ex.st, lv), idx.t), typ: at.Elem()}
		}
		vc.fail("contract: index on %s", base.typ)
	case *ast.SliceExpr:
		base := ex.tr(x.X)
		lo := "0"
		if x.Low != nil {
			lo = ex.tr(x.Low).t
		}
		rt := ex.typeOf(e)
		switch base.typ.Underlying().(type) {
		case *types.Basic:
			hi := strLen(base.t)
			if x.High != nil {
				hi = ex.tr(x.High).t
			}
			return Val{t: app("mkstr", app("st.base", base.t), add(app("st.off", base.t), lo), sub(hi, lo)), typ: rt}
		case *types.Slice:
			hi := slLen(base.t)
			if x.High != nil {
				hi = ex.tr(x.High).t
			}
			return Val{t: app("mkslice", slRef(base.t), add(slOff(base.t), lo), sub(hi, lo), sub(slCap(base.t), lo)), typ: rt}
		}
		vc.fail("contract: slice of %s", base.typ)
	case *ast.CallExpr:
		return ex.call(x)
	case *ast.TypeAssertExpr:
		v := ex.tr(x.X)
		t := ex.typeOf(x.Type)
		if isInterface(t) {
			return Val{t: v.t, typ: t}
		}
		return Val{t: app(vc.S.boxOf(t).acc, v.t), typ: t}
	case *ast.CompositeLit:
		t := ex.typeOf(e)
		st, ok := t.Underlying().(*types.Struct)
		if !ok {
			vc.fail("contract: composite literal of %s", t)
		}
		ss := vc.S.structOf(t)
		args := make([]Term, st.NumFields())
		for i := range args {
			args[i] = vc.S.zero(st.Field(i).Type())
		}
		for i, el := range x.Elts {
			if kv, ok := el.(*ast.KeyValueExpr); ok {
				name := kv.Key.(*ast.Ident).Name
				for k := 0; k < st.NumFields(); k++ {
					if st.Field(k).Name() == name {
						args[k] = ex.coerce(ex.tr(kv.Value), st.Field(k).Type())
					}
				}
			} else {
				args[i] = ex.coerce(ex.tr(el), st.Field(i).Type())
			}
		}
		if len(args) == 0 {
			return Val{t: ss.ctor, typ: t}
		}
		return Val{t: app(ss.ctor, args...), typ: t}
	}
	vc.fail("contract: unsupported expression %s (%T)", nodeStr(vc.P.fset, e), e)
	return Val{}
}

// coerce adapts a value to a target type (boxing into interfaces, typed nil).
func (ex *exprTr) coerce(v Val, t types.Type) Term {
	vc := ex.vc
	if v.t == "NIL" {
		return vc.S.zero(t)
	}
	if isInterface(t) && v.typ != nil && !isInterface(v.typ) {
		return app(vc.S.boxOf(v.typ).ctor, vc.asTerm(v))
	}
	return vc.asTerm(v)
}

func (ex *exprTr) global(o *types.Var) Val {
	vc := ex.vc
	sp := vc.P.prog.Package(o.Pkg())
	if sp == nil {
		vc.fail("contract: package of global %s not loaded", o.Name())
	}
	g := sp.Var(o.Name())
	if g == nil {
		vc.fail("contract: global %s not found", o.Name())
	}
	return Val{t: vc.globalGet(ex.st, g), typ: o.Type()}
}

func (ex *exprTr) fieldPath(base Val, path []int) Val {
	vc := ex.vc
	cur := base
	for _, idx := range path {
		t := cur.typ
		if pt, ok := t.Underlying().(*types.Pointer); ok {
			lv := vc.lvOf(cur)
			cur = Val{t: vc.load(ex.st, lv), typ: pt.Elem()}
			t = pt.Elem()
		}
		st, ok := t.Underlying().(*types.Struct)
		if !ok {
			vc.fail("contract: field of non-struct %s", t)
		}
		ss := vc.S.structOf(t)
		cur = Val{t: app(ss.fields[idx], cur.t), typ: st.Field(idx).Type()}
	}
	return cur
}

func (ex *exprTr) binary(x *ast.BinaryExpr) Val {
	vc := ex.vc
	rt := ex.typeOf(x)
	switch x.Op {
	case token.LAND:
		return Val{t: and(ex.tr(x.X).t, ex.tr(x.Y).t), typ: rt}
	case token.LOR:
		return Val{t: or(ex.tr(x.X).t, ex.tr(x.Y).t), typ: rt}
	}
	a, b := ex.tr(x.X), ex.tr(x.Y)
	ta, tb := a.typ, b.typ
	if a.t == "NIL" {
		a = Val{t: vc.S.zero(tb), typ: tb}
		ta = tb
	}
	if b.t == "NIL" {
		b = Val{t: vc.S.zero(ta), typ: ta}
		tb = ta
	}
	switch x.Op {
	case token.EQL, token.NEQ:
		var r Term
		switch {
		case isInterface(ta) || isInterface(tb):
			r = vc.dynEq(vc.asDyn(a, ta), vc.asDyn(b, tb))
		case isString(ta) && ex.structEq:
			r = eq(a.t, b.t) // naming clause: the name denotes this very value
		case isString(ta):
			r = vc.strEqTerms(a.t, b.t)
		case isFloat(ta):
			f := vc.declareFun("f64.eq", []string{"F64", "F64"}, "Bool")
			r = app(f, a.t, b.t)
		case interiorPtr(a) && b.lv == nil && b.t == "0", interiorPtr(b) && a.lv == nil && a.t == "0":
			r = "false" // the address of a field or element is never nil
		default:
			r = eq(vc.asTerm(a), vc.asTerm(b))
		}
		if x.Op == token.NEQ {
			r = not(r)
		}
		return Val{t: r, typ: rt}
	}
	if isFloat(ta) {
		return vc.floatOp(x.Op, a.t, b.t, rt)
	}
	if isString(ta) {
		if x.Op == token.ADD {
			return Val{t: vc.strConcat(a.t, b.t), typ: rt}
		}
		f := vc.declareFun("str.cmp", []string{"Str", "Str"}, "Int")
		op := map[token.Token]string{token.LSS: "<", token.LEQ: "<=", token.GTR: ">", token.GEQ: ">="}[x.Op]
		return Val{t: app(op, app(f, a.t, b.t), "0"), typ: rt}
	}
	switch x.Op {
	case token.ADD:
		return Val{t: app("+", a.t, b.t), typ: rt}
	case token.SUB:
		return Val{t: app("-", a.t, b.t), typ: rt}
	case token.MUL:
		return Val{t: app("*", a.t, b.t), typ: rt}
	case token.QUO:
		return Val{t: vc.truncDiv(a.t, b.t), typ: rt}
	case token.REM:
		return Val{t: app("-", a.t, app("*", b.t, vc.truncDiv(a.t, b.t))), typ: rt}
	case token.LSS:
		return Val{t: app("<", a.t, b.t), typ: rt}
	case token.LEQ:
		return Val{t: app("<=", a.t, b.t), typ: rt}
	case token.GTR:
		return Val{t: app(">", a.t, b.t), typ: rt}
	case token.GEQ:
		return Val{t: app(">=", a.t, b.t), typ: rt}
	case token.SHL:
		if c, ok := constOf(b.t); ok && c.IsInt64() && c.Int64() >= 0 && c.Int64() < 256 {
			return Val{t: app("*", a.t, bigNum(pow2(c.Int64()))), typ: rt}
		}
	case token.SHR:
		if c, ok := constOf(b.t); ok && c.IsInt64() && c.Int64() >= 0 && c.Int64() < 256 {
			return Val{t: app("div", a.t, bigNum(pow2(c.Int64()))), typ: rt}
		}
	case token.AND:
		if c, ok := constOf(b.t); ok && c.Sign() >= 0 {
			c1 := new(big.Int).Add(c, big.NewInt(1))
			if new(big.Int).And(c1, c).Sign() == 0 {
				return Val{t: app("mod", a.t, bigNum(c1)), typ: rt}
			}
		}
	}
	if bits, signed, ok := intInfo(ta); ok {
		switch x.Op {
		case token.XOR:
			return vc.bitUF("xor", bits, a.t, b.t, ta, false)
		case token.OR:
			return vc.bitUF("or", bits, a.t, b.t, ta, false)
		case token.AND:
			return vc.bitUF("and", bits, a.t, b.t, ta, !signed)
		}
	}
	vc.fail("contract: binary operator %s on %s", x.Op, ta)
	return Val{}
}

func (ex *exprTr) call(x *ast.CallExpr) Val {
	vc := ex.vc
	rt := ex.typeOf(x)
	// conversion
	if tv, ok := ex.info.Types[x.Fun]; ok && tv.IsType() {
		a := ex.tr(x.Args[0])
		to := tv.Type
		if a.t == "NIL" {
			return Val{t: vc.S.zero(to), typ: to}
		}
		_, _, fi := intInfo(a.typ)
		_, _, ti := intInfo(to)
		switch {
		case fi && ti:
			return Val{t: a.t, typ: to} // mathematical value preserved
		case fi && isFloat(to):
			f := vc.declareFun("f64.fromint", []string{"Int"}, "F64")
			return Val{t: app(f, a.t), typ: to}
		case isString(to) && !isString(a.typ):
			if sl, ok := a.typ.Underlying().(*types.Slice); ok {
				name, sort := vc.memName(sl.Elem())
				return Val{t: app("mkstr", app("select", vc.heapGet(ex.st, name, sort), slRef(a.t)), slOff(a.t), slLen(a.t)), typ: to}
			}
		case isInterface(to) && !isInterface(a.typ):
			return Val{t: app(vc.S.boxOf(a.typ).ctor, vc.asTerm(a)), typ: to}
		}
		if vc.S.sortOf(a.typ) == vc.S.sortOf(to) {
			a.typ = to
			return a
		}
		vc.fail("contract: conversion %s -> %s", a.typ, to)
	}
	if dn, dargs, ok := ex.detCallee(x); ok {
		var vs []Val
		for _, a := range dargs {
			vs = append(vs, ex.tr(a))
		}
		return vc.detApply(dn, vs, rt)
	}
	// call of a value whose type is a named function type declared `purefunc`
	if tv, known := ex.info.Types[x.Fun]; known && tv.IsValue() && tv.Type != nil {
		ft := tv.Type
		if key, ok := vc.pureFuncKey(ft); ok {
			fv := ex.tr(x.Fun)
			var vs []Val
			sig := ft.Underlying().(*types.Signature)
			for i, a := range x.Args {
				v := ex.tr(a)
				vs = append(vs, Val{t: ex.coerce(v, sig.Params().At(i).Type()), typ: sig.Params().At(i).Type()})
			}
			return vc.pureFieldApply(key, fv, vs, rt)
		}
	}
	// call through a function-valued struct field declared `purefield`
	if sel, ok := x.Fun.(*ast.SelectorExpr); ok {
		if fo, ok := ex.info.Uses[sel.Sel].(*types.Var); ok && fo.IsField() {
			if key, ok := vc.pureFieldKey(ex.typeOf(sel.X), fo.Name()); ok {
				fv := ex.tr(x.Fun)
				var vs []Val
				sig := fo.Type().Underlying().(*types.Signature)
				for i, a := range x.Args {
					v := ex.tr(a)
					vs = append(vs, Val{t: ex.coerce(v, sig.Params().At(i).Type()), typ: sig.Params().At(i).Type()})
				}
				return vc.pureFieldApply(key, fv, vs, rt)
			}
		}
	}
	// name of callee
	fun := x.Fun
	var targs []types.Type
	if ix, ok := fun.(*ast.IndexExpr); ok {
		fun = ix.X
		targs = append(targs, ex.typeOf(ix.Index))
	}
	name := ""
	var obj types.Object
	switch f := fun.(type) {
	case *ast.Ident:
		name = f.Name
		obj = ex.info.Uses[f]
	case *ast.SelectorExpr:
		name = f.Sel.Name
		obj = ex.info.Uses[f.Sel]
	}
	switch name {
	case "len", "cap":
		if _, isBuiltin := obj.(*types.Builtin); isBuiltin {
			a := ex.tr(x.Args[0])
			switch t := a.typ.Underlying().(type) {
			case *types.Basic:
				return Val{t: strLen(a.t), typ: rt}
			case *types.Slice:
				if name == "len" {
					return Val{t: slLen(a.t), typ: rt}
				}
				return Val{t: slCap(a.t), typ: rt}
			case *types.Array:
				return Val{t: num(t.Len()), typ: rt}
			case *types.Map:
				hn, sort, ms := vc.mapHeapName(t)
				return Val{t: app(ms.size(), app("select", vc.heapGet(ex.st, hn, sort), a.t)), typ: rt}
			case *types.Pointer:
				return Val{t: num(t.Elem().Underlying().(*types.Array).Len()), typ: rt}
			}
		}
	case "min", "max":
		if _, isBuiltin := obj.(*types.Builtin); isBuiltin {
			r := ex.tr(x.Args[0]).t
			for _, a := range x.Args[1:] {
				y := ex.tr(a).t
				if name == "min" {
					r = ite(app("<=", r, y), r, y)
				} else {
					r = ite(app(">=", r, y), r, y)
				}
			}
			return Val{t: r, typ: rt}
		}
	case "verif_old":
		sub := *ex
		sub.st = ex.old
		return sub.tr(x.Args[0])
	case "verif_implies":
		return Val{t: implies(ex.tr(x.Args[0]).t, ex.tr(x.Args[1]).t), typ: rt}
	case "verif_iff":
		return Val{t: eq(ex.tr(x.Args[0]).t, ex.tr(x.Args[1]).t), typ: rt}
	case "verif_unfold":
		// unfold(f(args)):  f(args) == <body of the recursive spec function f at args>; true by definition
		c, ok := x.Args[0].(*ast.CallExpr)
		if !ok {
			vc.fail("contract: unfold needs a call of a recursive spec function")
		}
		var fo *types.Func
		if id, ok := c.Fun.(*ast.Ident); ok {
			fo, _ = ex.info.Uses[id].(*types.Func)
		}
		if sel, ok := c.Fun.(*ast.SelectorExpr); ok {
			// a recursive spec function of another package (pkg.F)
			fo, _ = ex.info.Uses[sel.Sel].(*types.Func)
		}
		if fo == nil {
			vc.fail("contract: unfold needs a call of a recursive spec function")
		}
		lhs := ex.tr(c)
		ex.unfolding = fo
		rhs := ex.specCall(fo, c, lhs.typ)
		ex.unfolding = nil
		vc.assume("definition instance of recursive spec function " + fo.Name() + " (unfold hint; true by definition, assumed well-founded)")
		return Val{t: eq(lhs.t, rhs.t), typ: rt}
	case "verif_callPanicked", "verif_callReturned", "verif_callResult":
		id, ok := x.Args[0].(*ast.Ident)
		if !ok {
			vc.fail("contract: %s needs the name of a function-valued variable", name[6:])
		}
		g := vc.ghostOf(id.Name)
		switch name {
		case "verif_callPanicked":
			return Val{t: and(g.at, g.panicked), typ: rt}
		case "verif_callReturned":
			return Val{t: and(g.at, not(g.panicked)), typ: rt}
		}
		if g.result.t == "" {
			vc.fail("contract: %s has no single result", id.Name)
		}
		return Val{t: g.result.t, typ: rt}
	case "verif_bytesOf":
		return Val{t: vc.bytesOfSlice(ex.st, ex.tr(x.Args[0]).t), typ: rt}
	case "verif_bytesOfStr":
		return Val{t: vc.bytesOfString(ex.tr(x.Args[0]).t), typ: rt}
	case "verif_bempty":
		vc.bytesOn()
		return Val{t: bytesEmpty, typ: rt}
	case "verif_built":
		vc.bytesOn()
		// built(b): b a *strings.Builder, or the name of a local strings.Builder variable (its address is meant)
		if id, ok := x.Args[0].(*ast.Ident); ok {
			if _, isPtr := ex.typeOf(id).Underlying().(*types.Pointer); !isPtr && isStringsBuilder(ex.typeOf(id)) {
				for _, b := range vc.fn.Blocks {
					for _, in := range b.Instrs {
						if al, ok := in.(*ssa.Alloc); ok && al.Comment == id.Name {
							if v, ok := vc.vals[al]; ok {
								return Val{t: app("select", vc.heapGet(ex.st, builderAccHeap, builderAccSort), vc.ptrTerm(v)), typ: rt}
							}
						}
					}
				}
				vc.fail("contract: built(%s): no such local builder", id.Name)
			}
		}
		a := ex.tr(x.Args[0])
		if !isStringsBuilder(a.typ) {
			vc.fail("contract: built() needs a *strings.Builder")
		}
		return Val{t: app("select", vc.heapGet(ex.st, builderAccHeap, builderAccSort), vc.ptrTerm(a)), typ: rt}
	case "verif_bsingle":
		return Val{t: vc.bsingle(ex.tr(x.Args[0]).t), typ: rt}
	case "verif_written":
		return ex.writtenBuiltin(ex.tr(x.Args[0]), rt)
	case "verif_utf8rune":
		r, _ := vc.utf8Decode(ex.tr(x.Args[0]).t, "true")
		return Val{t: r, typ: rt}
	case "verif_utf8size":
		_, w := vc.utf8Decode(ex.tr(x.Args[0]).t, "true")
		return Val{t: w, typ: rt}
	case "verif_xxh64":
		vc.bytesOn()
		f := vc.declareFun("bytes.xxh64", []string{bytesSort}, "Int")
		r := app(f, ex.tr(x.Args[0]).t)
		vc.addAssume("true", and(app("<=", "0", r), app("<=", r, "18446744073709551615")))
		return Val{t: r, typ: rt}
	case "verif_bcat", "verif_bxor", "verif_btake":
		vc.bytesOn()
		return Val{t: app("bytes."+name[7:], ex.tr(x.Args[0]).t, ex.tr(x.Args[1]).t), typ: rt}
	case "verif_blen":
		vc.bytesOn()
		return Val{t: app("blen", ex.tr(x.Args[0]).t), typ: rt}
	case "verif_bat":
		vc.bytesOn()
		return Val{t: app("select", app("barr", ex.tr(x.Args[0]).t), ex.tr(x.Args[1]).t), typ: rt}
	case "verif_sha1of":
		vc.bytesOn()
		return Val{t: app("bytes.hash", "1", ex.tr(x.Args[0]).t), typ: rt}
	case "verif_unhex", "verif_hexok":
		vc.bytesOn()
		return Val{t: app("bytes."+name[6:], ex.tr(x.Args[0]).t), typ: rt}
	case "verif_f64bits":
		return Val{t: app(vc.f64Bits(), ex.tr(x.Args[0]).t), typ: rt}
	case "verif_f64frombits":
		vc.f64Bits()
		return Val{t: app("f64.frombits", ex.tr(x.Args[0]).t), typ: rt}
	case "verif_offset":
		// offset(s): index of s[0] in its backing array (ghost; lets invariants relate a re-sliced cursor to the original slice)
		return Val{t: slOff(ex.tr(x.Args[0]).t), typ: rt}
	case "verif_entry":
		// entry(p): the value parameter p had when the function was entered (parameters are assignable)
		id, ok := x.Args[0].(*ast.Ident)
		if !ok {
			vc.fail("contract: entry() needs a parameter name")
		}
		if v, ok := ex.lookup("entry$" + id.Name); ok {
			return v // inside a loop clause the plain name is the loop variable
		}
		if v, ok := ex.lookup(id.Name); ok {
			return v // pre/postconditions (also at call sites): the name is the entry value
		}
		vc.fail("contract: entry(%s): not a parameter", id.Name)
		return Val{}
	case "verif_same":
		// identity of values (floats: the very same value, unlike IEEE ==; strings: the same string value)
		a, b := ex.tr(x.Args[0]), ex.tr(x.Args[1])
		pt := ex.typeOf(x.Args[0])
		return Val{t: eq(ex.coerce(a, pt), ex.coerce(b, pt)), typ: rt}
	case "verif_has":
		base, idx := ex.tr(x.Args[0]), ex.tr(x.Args[1])
		mt := base.typ.Underlying().(*types.Map)
		name, sort, ms := vc.mapHeapName(mt)
		m := app("select", vc.heapGet(ex.st, name, sort), base.t)
		return Val{t: app("select", app(ms.present(), m), vc.mapKeyTerm(ex.coerce(idx, mt.Key()), mt.Key())), typ: rt}
	case "verif_fresh":
		// fresh(x): the array / object / map x refers to was allocated by this activation (after entry)
		a := ex.tr(x.Args[0])
		var ref Term
		switch a.typ.Underlying().(type) {
		case *types.Slice:
			ref = slRef(a.t)
		case *types.Pointer, *types.Map, *types.Signature:
			ref = vc.asTerm(a)
		default:
			vc.fail("contract: fresh() needs a slice, pointer, map or function value")
		}
		// (in a callee's postcondition at a call site the activation is the call: counted from the pre-call state)
		base := vc.entry
		if ex.old != nil {
			base = ex.old
		}
		return Val{t: app(">=", ref, vc.allocGet(base)), typ: rt}
	case "verif_lastLoad", "verif_lastCasOld", "verif_lastCasNew", "verif_lastCasOK":
		if v, ok := ex.atomicGhost(name, rt); ok {
			return v
		}
	case "verif_invoked", "verif_tally", "verif_streamPos":
		if v, ok := ex.ghostBuiltin(name, []Val{ex.tr(x.Args[0])}, rt); ok {
			return v
		}
	case "verif_calls":
		lit, ok := x.Args[1].(*ast.BasicLit)
		if !ok {
			vc.fail("contract: calls(recv, \"Method\") needs a string literal")
		}
		return ex.callsBuiltin(ex.tr(x.Args[0]), strings.Trim(lit.Value, "\""), rt)
	case "verif_rangeseen":
		// rangeseen(k): the map range loop this clause belongs to has already produced key k
		seen, ok := ex.lookup("verif_rangeseen")
		if !ok {
			vc.fail("contract: rangeseen() is only available in clauses of a loop that ranges over a map without inserting into it")
		}
		a := ex.tr(x.Args[0])
		return Val{t: app("select", seen.t, vc.mapKeyTerm(ex.coerce(a, seen.typ), seen.typ)), typ: rt}
	case "verif_sameArray":
		a, b := ex.tr(x.Args[0]), ex.tr(x.Args[1])
		return Val{t: eq(slRef(a.t), slRef(b.t)), typ: rt}
	case "verif_Z":
		a := ex.tr(x.Args[0])
		return Val{t: a.t, typ: rt}
	case "verif_Is":
		a := ex.tr(x.Args[0])
		t := targs[0]
		if isInterface(t) {
			return Val{t: and(not(app("(_ is dnil)", a.t)), app(vc.implFun(t), a.t)), typ: rt}
		}
		return Val{t: app("(_ is "+vc.S.boxOf(t).ctor+")", a.t), typ: rt}
	case "verif_As":
		a := ex.tr(x.Args[0])
		t := targs[0]
		if isInterface(t) {
			return Val{t: a.t, typ: t}
		}
		return Val{t: app(vc.S.boxOf(t).acc, a.t), typ: t}
	case "verif_forallRange", "verif_existsRange":
		lo, hi := ex.tr(x.Args[0]).t, ex.tr(x.Args[1]).t
		fl, ok := x.Args[2].(*ast.FuncLit)
		if !ok {
			vc.fail("contract: quantifier needs a function literal")
		}
		n := fl.Type.Params.List[0].Names[0].Name
		c := vc.freshName(n)
		ex.env = append(ex.env, map[string]Val{n: {t: c, typ: types.Typ[types.Int]}})
		saveND := vc.noDefine
		vc.noDefine = true
		body := ex.tr(fl.Body.List[0].(*ast.ReturnStmt).Results[0]).t
		vc.noDefine = saveND
		ex.env = ex.env[:len(ex.env)-1]
		vc.quantCtx = true
		bound := and(app("<=", lo, c), app("<", c, hi))
		var q Term
		if name == "verif_forallRange" {
			q = "(forall ((" + c + " Int)) " + withPattern(implies(bound, body), c) + ")"
		} else {
			q = "(exists ((" + c + " Int)) " + withPattern(and(bound, body), c) + ")"
		}
		qinst := vc.fi != nil && vc.fi.fc.QInst
		if qinst && !saveND && name == "verif_forallRange" {
			vc.rangeQs = append(vc.rangeQs, rangeQ{q: q, c: c, bound: bound, body: body})
		}
		if qinst && !saveND {
			// Instances at the hidden indices of the function's `for range` loops, as tautologies
			// (forall ==> instance, instance ==> exists). E-matching on patterns that contain
			// offset + index is fragile; the index a loop is looking at is the instance proofs need.
			for _, t := range vc.rangeIdxTerms() {
				inst := func(x Term) Term { return strings.ReplaceAll(x, c, t) }
				if name == "verif_forallRange" {
					vc.addAssume("true", implies(q, implies(inst(bound), inst(body))))
				} else {
					vc.addAssume("true", implies(and(inst(bound), inst(body)), q))
				}
			}
		}
		return Val{t: q, typ: rt}
	case "verif_forall", "verif_exists":
		fl, ok := x.Args[0].(*ast.FuncLit)
		if !ok {
			vc.fail("contract: quantifier needs a function literal")
		}
		scope := map[string]Val{}
		var binders []string
		var facts []Term
		for _, f := range fl.Type.Params.List {
			t := ex.typeOf(f.Type)
			for _, n := range f.Names {
				c := vc.freshName(n.Name)
				binders = append(binders, fmt.Sprintf("(%s %s)", c, vc.S.sortOf(t)))
				scope[n.Name] = Val{t: c, typ: t}
				facts = append(facts, vc.typeFacts(nil, t, c, 0))
			}
		}
		ex.env = append(ex.env, scope)
		ret := fl.Body.List[0].(*ast.ReturnStmt)
		saveND := vc.noDefine
		vc.noDefine = true
		body := ex.tr(ret.Results[0]).t
		vc.noDefine = saveND
		ex.env = ex.env[:len(ex.env)-1]
		vc.quantCtx = true
		if name == "verif_forall" {
			return Val{t: "(forall (" + strings.Join(binders, " ") + ") " + implies(and(facts...), body) + ")", typ: rt}
		}
		return Val{t: "(exists (" + strings.Join(binders, " ") + ") " + and(and(facts...), body) + ")", typ: rt}
	}
	// spec function or uninterpreted function
	if fo, ok := obj.(*types.Func); ok {
		return ex.specCall(fo, x, rt)
	}
	vc.fail("contract: call of %s not supported", nodeStr(vc.P.fset, x.Fun))
	return Val{}
}

// specCall inlines a spec function (declared in the prelude) or applies an uninterpreted
// function (bodiless declaration).
func (ex *exprTr) specCall(fo *types.Func, x *ast.CallExpr, rt types.Type) Val {
	vc := ex.vc
	decl, info := vc.P.findFuncDecl(fo)
	if decl == nil {
		vc.fail("contract: %s is not a spec function (only spec functions, builtins and old/Z/Is/As may be called)", fo.Name())
	}
	sig := fo.Type().(*types.Signature)
	var args []Val
	if sel, ok := x.Fun.(*ast.SelectorExpr); ok && sig.Recv() != nil {
		args = append(args, ex.tr(sel.X))
	}
	for i, a := range x.Args {
		v := ex.tr(a)
		pi := i
		if pi >= sig.Params().Len() {
			pi = sig.Params().Len() - 1
		}
		pt := sig.Params().At(pi).Type()
		v = Val{t: ex.coerce(v, pt), typ: pt}
		args = append(args, v)
	}
	if !strings.HasSuffix(vc.P.fset.Position(decl.Pos()).Filename, "zz_verif_prelude.go") {
		vc.fail("contract: %s is not a spec function", fo.Name())
	}
	if !ex.reveal[fo] && (decl.Body == nil || vc.isOpaqueHere(fo) || (isRecursiveSpec(decl) && ex.unfolding != fo)) {
		// uninterpreted: bodiless, `spec opaque` and not revealed here, or recursive (the definition of a
		// recursive spec function is available only through explicit `unfold(f(args))` hints, which
		// instantiate the body once; this keeps the solver from unfolding without bound).
		// The heaps the body reads are arguments too, so a change of memory changes the value.
		var sorts []string
		var ts []Term
		for _, a := range args {
			sorts = append(sorts, vc.S.sortOf(a.typ))
			ts = append(ts, vc.asTerm(a))
		}
		if decl.Body != nil && vc.specProbing != nil && vc.specProbing[fo] {
			// the recursive call met while the body is being probed for its heap reads: its heap
			// arguments are not known yet, so nothing is declared (the probe's terms are discarded)
			return Val{t: vc.S.zero(rt), typ: rt}
		}
		if decl.Body != nil {
			for _, hn := range ex.specHeapReads(fo, decl, info, args, rt) {
				srt := vc.heapSort[hn]
				sorts = append(sorts, srt)
				ts = append(ts, vc.heapGet(ex.st, hn, srt))
			}
		}
		f := vc.declareFun(sym("spec."+fo.Name()), sorts, vc.S.sortOf(rt))
		if len(ts) == 0 {
			return Val{t: f, typ: rt}
		}
		r := app(f, ts...)
		return Val{t: r, typ: rt}
	}
	unfoldingThis := ex.unfolding == fo
	if ex.depth > 12 {
		vc.fail("contract: spec function recursion too deep (%s); recursive spec functions need `decreases` support", fo.Name())
	}
	scope := map[string]Val{}
	i := 0
	if decl.Recv != nil {
		for _, f := range decl.Recv.List {
			for _, n := range f.Names {
				scope[n.Name] = args[i]
			}
			i++
		}
	}
	for _, f := range decl.Type.Params.List {
		for _, n := range f.Names {
			scope[n.Name] = args[i]
			i++
		}
	}
	sub := &exprTr{vc: vc, info: info, env: []map[string]Val{scope}, st: ex.st, old: ex.old, fi: ex.fi, depth: ex.depth + 1}
	_ = unfoldingThis // inner calls of the function being unfolded are opaque again (sub.unfolding == nil)
	t := sub.stmts(decl.Body.List, rt)
	return Val{t: t, typ: rt}
}

// stmts translates a restricted statement list (if/return/:=/switch) into a term.
func (ex *exprTr) stmts(list []ast.Stmt, rt types.Type) Term {
	vc := ex.vc
	if len(list) == 0 {
		vc.fail("contract: spec function falls off the end")
	}
	switch s := list[0].(type) {
	case *ast.ReturnStmt:
		v := ex.tr(s.Results[0])
		return ex.coerce(v, rt)
	case *ast.IfStmt:
		if s.Init != nil {
			vc.fail("contract: if with init in spec function")
		}
		c := ex.tr(s.Cond).t
		rest := list[1:]
		thenT := ex.stmts(append(append([]ast.Stmt{}, s.Body.List...), rest...), rt)
		var elseT Term
		switch el := s.Else.(type) {
		case nil:
			elseT = ex.stmts(rest, rt)
		case *ast.BlockStmt:
			elseT = ex.stmts(append(append([]ast.Stmt{}, el.List...), rest...), rt)
		case *ast.IfStmt:
			elseT = ex.stmts(append([]ast.Stmt{el}, rest...), rt)
		}
		return ite(c, thenT, elseT)
	case *ast.AssignStmt:
		if s.Tok != token.DEFINE || len(s.Lhs) != 1 || len(s.Rhs) != 1 {
			vc.fail("contract: only  x := e  in spec functions")
		}
		v := ex.tr(s.Rhs[0])
		if v.t != "" && v.tuple == nil && v.lv == nil {
			v.t = vc.define("let_"+s.Lhs[0].(*ast.Ident).Name, vc.S.sortOf(v.typ), v.t)
		}
		ex.env = append(ex.env, map[string]Val{s.Lhs[0].(*ast.Ident).Name: v})
		t := ex.stmts(list[1:], rt)
		ex.env = ex.env[:len(ex.env)-1]
		return t
	case *ast.SwitchStmt:
		if s.Init != nil {
			vc.fail("contract: switch with init")
		}
		rest := list[1:]
		var tag *Val
		if s.Tag != nil {
			v := ex.tr(s.Tag)
			tag = &v
		}
		// build if-chain
		var def []ast.Stmt
		hasDef := false
		type cs struct {
			cond Term
			body []ast.Stmt
		}
		var cases []cs
		for _, c := range s.Body.List {
			cc := c.(*ast.CaseClause)
			if cc.List == nil {
				def = cc.Body
				hasDef = true
				continue
			}
			var cs1 []Term
			for _, e := range cc.List {
				v := ex.tr(e)
				if tag != nil {
					if isString(tag.typ) {
						cs1 = append(cs1, vc.strEqTerms(tag.t, v.t))
					} else {
						cs1 = append(cs1, eq(tag.t, v.t))
					}
				} else {
					cs1 = append(cs1, v.t)
				}
			}
			cases = append(cases, cs{or(cs1...), cc.Body})
		}
		var t Term
		if hasDef {
			t = ex.stmts(append(append([]ast.Stmt{}, def...), rest...), rt)
		} else {
			t = ex.stmts(rest, rt)
		}
		for i := len(cases) - 1; i >= 0; i-- {
			t = ite(cases[i].cond, ex.stmts(append(append([]ast.Stmt{}, cases[i].body...), rest...), rt), t)
		}
		return t
	}
	vc.fail("contract: statement %T not allowed in a spec function", list[0])
	return ""
}

func (P *Program) findFuncDecl(fo *types.Func) (*ast.FuncDecl, *types.Info) {
	if fo.Pkg() == nil {
		return nil, nil
	}
	pkg := P.pkgs[fo.Pkg().Path()]
	if pkg == nil {
		return nil, nil
	}
	for _, f := range pkg.Syntax {
		if f.Pos() <= fo.Pos() && fo.Pos() < f.End() {
			for _, d := range f.Decls {
				if fd, ok := d.(*ast.FuncDecl); ok && fd.Name.Pos() == fo.Pos() {
					return fd, pkg.TypesInfo
				}
			}
		}
	}
	return nil, nil
}

var _ = ssa.NaiveForm

// specHeapReads: the heaps (by name, sorted) that the body of a spec function reads, found by
// translating the body once on the side (the events of that translation are discarded).
func (ex *exprTr) specHeapReads(fo *types.Func, decl *ast.FuncDecl, info *types.Info, args []Val, rt types.Type) []string {
	vc := ex.vc
	if vc.specHeaps == nil {
		vc.specHeaps = map[*types.Func][]string{}
		vc.specProbing = map[*types.Func]bool{}
	}
	if hs, ok := vc.specHeaps[fo]; ok {
		return hs
	}
	if vc.specProbing[fo] {
		return nil
	}
	vc.specProbing[fo] = true
	nEv := len(vc.events)
	saveProbe, saveND := vc.heapProbe, vc.noDefine
	vc.heapProbe = map[string]bool{}
	vc.noDefine = true
	// only the body is translated here: heap reads of the argument expressions belong to the caller
	scope := map[string]Val{}
	i := 0
	if decl.Recv != nil {
		for _, f := range decl.Recv.List {
			for _, n := range f.Names {
				scope[n.Name] = args[i]
			}
			i++
		}
	}
	for _, f := range decl.Type.Params.List {
		for _, n := range f.Names {
			scope[n.Name] = args[i]
			i++
		}
	}
	sub := &exprTr{vc: vc, info: info, env: []map[string]Val{scope}, st: ex.st, old: ex.old, fi: ex.fi, depth: ex.depth + 1}
	sub.stmts(decl.Body.List, rt)
	var hs []string
	for h := range vc.heapProbe {
		if h != "alloc" {
			hs = append(hs, h)
		}
	}
	sort.Strings(hs)
	for h := range vc.heapProbe {
		if saveProbe != nil {
			saveProbe[h] = true
		}
	}
	vc.heapProbe, vc.noDefine = saveProbe, saveND
	vc.events = vc.events[:nEv]
	delete(vc.specProbing, fo)
	vc.specHeaps[fo] = hs
	return hs
}

// interiorPtr: the value is the address of a struct field or an array/slice element.
func interiorPtr(v Val) bool {
	return v.lv != nil && v.lv.kind != lvHeap && v.lv.kind != lvMemArr
}

// rangeIdxTerms: the current symbolic values of the hidden indices of `for range` loops over slices,
// arrays and strings (the phi and its increment), as far as they have been evaluated.
func (vc *VC) rangeIdxTerms() []Term {
	var out []Term
	seen := map[Term]bool{}
	if vc.fn == nil {
		return nil
	}
	for _, b := range vc.fn.Blocks {
		for _, in := range b.Instrs {
			switch x := in.(type) {
			case *ssa.Phi:
				if x.Comment != "rangeindex" {
					continue
				}
				if v, ok := vc.vals[x]; ok && v.t != "" && !seen[v.t] {
					seen[v.t] = true
					out = append(out, v.t)
				}
			case *ssa.BinOp:
				if phi, ok := x.X.(*ssa.Phi); ok && phi.Comment == "rangeindex" && x.Op == token.ADD {
					if v, ok := vc.vals[x]; ok && v.t != "" && !seen[v.t] {
						seen[v.t] = true
						out = append(out, v.t)
					}
				}
			}
		}
	}
	return out
}

// rangeQ: a bounded universal quantifier of a contract, kept so that a goal of that shape can be
// proved at a fresh constant and the other bounded quantifiers instantiated there.
type rangeQ struct {
	q, c, bound, body Term
}

// skolemizeGoal: a goal that is (a conjunction of / an implication ending in) bounded universal
// quantifiers of the contracts is proved for a fresh constant in place of the bound variable; every
// bounded universal quantifier translated so far gets its instance at that constant (a tautology).
func (vc *VC) skolemizeGoal(guard, cond Term) Term {
	if len(vc.rangeQs) == 0 || !strings.Contains(cond, "(forall ((") {
		return cond
	}
	var rec func(t Term, depth int) Term
	rec = func(t Term, depth int) Term {
		t = strings.TrimSpace(t)
		for _, rq := range vc.rangeQs {
			if t == rq.q {
				sk := vc.freshConst("sk", "Int")
				inst := func(x Term, c Term) Term { return strings.ReplaceAll(x, c, sk) }
				for _, h := range vc.rangeQs {
					vc.addAssume(guard, implies(h.q, implies(inst(h.bound, h.c), inst(h.body, h.c))))
				}
				return implies(inst(rq.bound, rq.c), inst(rq.body, rq.c))
			}
		}
		if depth > 3 {
			return t
		}
		if strings.HasPrefix(t, "(and ") {
			parts := splitAnd(t)
			if len(parts) > 1 {
				var out []Term
				for _, p := range parts {
					out = append(out, rec(p, depth+1))
				}
				return and(out...)
			}
		}
		if strings.HasPrefix(t, "(=> ") && strings.HasSuffix(t, ")") {
			args := splitArgs(t[4 : len(t)-1])
			if len(args) == 2 {
				return implies(args[0], rec(args[1], depth+1))
			}
		}
		return t
	}
	return rec(cond, 0)
}

// splitArgs splits the argument text of an application at top level.
func splitArgs(body string) []string {
	var parts []string
	depth, start := 0, 0
	inBar := false
	for i := 0; i < len(body); i++ {
		c := body[i]
		switch {
		case c == '|':
			inBar = !inBar
		case inBar:
		case c == '(':
			depth++
		case c == ')':
			depth--
		case (c == ' ' || c == '\n') && depth == 0:
			if i > start {
				parts = append(parts, body[start:i])
			}
			start = i + 1
		}
	}
	if start < len(body) {
		parts = append(parts, body[start:])
	}
	return parts
}
