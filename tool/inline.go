package main

// Function literals, defer and recover.
//
//   - A call of a function literal whose MakeClosure is the callee operand itself (immediately
//     invoked literals and, above all, `defer func() { ... }()`) is executed in place: the literal's
//     SSA body is run by the same symbolic executor on the caller's state, free variables bound to
//     the closure bindings. No contract is involved, nothing is abstracted.
//   - `defer f(args)` records the call with the reach condition of the defer statement;
//     `rundefers` (emitted by go/ssa before every return) executes the recorded calls in LIFO
//     order, each guarded by "its defer statement was executed". Defers inside loops are outside
//     the subset.
//   - Panics: see panicpath.go.

import (
	"fmt"
	"go/token"
	"go/types"
	"sort"

	"golang.org/x/tools/go/ssa"
)

type deferRec struct {
	in    *ssa.Defer
	guard Term
}

type inlineFrame struct {
	rets []inlineRet
}

type inlineRet struct {
	cond Term
	vals []Val
	st   *State
}

const maxInlineDepth = 4

// mergeStates builds the state that is sts[i] under conds[i] (the last one is the default).
func (vc *VC) mergeStates(conds []Term, sts []*State) *State {
	st := &State{heaps: map[string]Term{}}
	names := map[string]bool{}
	for _, s := range sts {
		for k := range s.heaps {
			names[k] = true
		}
	}
	keys := make([]string, 0, len(names))
	for k := range names {
		keys = append(keys, k)
	}
	sort.Strings(keys)
	for _, k := range keys {
		srt := vc.heapSort[k]
		t := vc.heapGet(sts[len(sts)-1], k, srt)
		same := true
		for _, s := range sts {
			if vc.heapGet(s, k, srt) != t {
				same = false
			}
		}
		if !same {
			for j := len(sts) - 2; j >= 0; j-- {
				t = ite(conds[j], vc.heapGet(sts[j], k, srt), t)
			}
			t = vc.define(k, srt, t)
		}
		st.heaps[k] = t
	}
	seen := map[*ssa.Defer]bool{}
	for _, s := range sts {
		for _, d := range s.defers {
			if !seen[d.in] {
				seen[d.in] = true
				st.defers = append(st.defers, d)
			}
		}
	}
	return st
}

// inlineCall executes the body of fn (a function literal) on st under the condition reach.
func (vc *VC) inlineCall(fn *ssa.Function, args []Val, bindings []ssa.Value, st *State, reach Term, rt types.Type, pos token.Pos) Val {
	if vc.inlineDepth >= maxInlineDepth {
		vc.fail("function literals nested deeper than %d", maxInlineDepth)
	}
	if len(fn.Blocks) == 0 {
		vc.fail("function literal %s has no body", fn)
	}
	// save the per-function part of the executor
	sFn, sReach, sOut, sEdge, sLoops, sLoopOf, sInline, sBase := vc.fn, vc.reach, vc.out, vc.edge, vc.loops, vc.loopOf, vc.inline, vc.baseReach
	nExits := len(vc.panicExits)
	outerDefers := append([]*deferRec(nil), st.defers...)
	if hasDefer(fn) && vc.panicMode {
		vc.fail("function literal with its own defer inside a function with defer (%s) is outside the subset", fn)
	}
	vc.fn = fn
	vc.reach, vc.out, vc.edge = map[*ssa.BasicBlock]Term{}, map[*ssa.BasicBlock]*State{}, map[[2]int]Term{}
	vc.loops, vc.loopOf = map[*ssa.BasicBlock]*LoopInfo{}, map[*ssa.BasicBlock]*LoopInfo{}
	fr := &inlineFrame{}
	vc.inline = fr
	vc.baseReach = reach
	vc.inlineDepth++
	for i, p := range fn.Params {
		vc.vals[p] = args[i]
	}
	for i, fv := range fn.FreeVars {
		vc.vals[fv] = vc.val(bindings[i])
		vc.nonnil[fv] = true
	}
	vc.findLoops()
	for _, li := range vc.loops {
		_ = li
		vc.fail("loop inside an inlined function literal (%s) is outside the subset", fn)
	}
	entry := st.clone()
	entry.defers = nil // the literal has its own defer stack
	for _, b := range vc.rpo() {
		vc.block(b, entry)
	}
	vc.inlineDepth--
	vc.fn, vc.reach, vc.out, vc.edge, vc.loops, vc.loopOf, vc.inline, vc.baseReach = sFn, sReach, sOut, sEdge, sLoops, sLoopOf, sInline, sBase
	// a panic raised inside the literal unwinds into the caller: its exits keep the caller's defers
	for i := nExits; i < len(vc.panicExits); i++ {
		if vc.inRunDefers {
			vc.fail("a deferred function literal that may itself panic is outside the subset (%s)", fn)
		}
		vc.panicExits[i].st.defers = outerDefers
	}
	if len(fr.rets) == 0 {
		// every path panics: the continuation is unreachable
		vc.addAssume(reach, "false")
		return vc.freshTyped(st, "call", rt, reach)
	}
	var conds []Term
	var sts []*State
	for _, r := range fr.rets {
		conds = append(conds, r.cond)
		sts = append(sts, r.st)
	}
	// normal continuation: some return was reached
	if vc.panicMode {
		vc.setReach(vc.define("returned", "Bool", and(reach, or(conds...))))
	} else {
		vc.addAssume(reach, or(conds...))
	}
	m := vc.mergeStates(conds, sts)
	st.heaps = m.heaps
	st.defers = outerDefers
	// result value
	nres := len(fr.rets[0].vals)
	if nres == 0 {
		return Val{typ: rt}
	}
	var out []Val
	for i := 0; i < nres; i++ {
		v := fr.rets[len(fr.rets)-1].vals[i]
		for j := len(fr.rets) - 2; j >= 0; j-- {
			v = vc.iteVal(fr.rets[j].cond, fr.rets[j].vals[i], v)
		}
		out = append(out, v)
	}
	if nres == 1 {
		r := out[0]
		r.typ = rt
		return r
	}
	return Val{tuple: out, typ: rt}
}

func (vc *VC) deferInstr(x *ssa.Defer, st *State, reach Term) {
	if vc.loopOf[x.Block()] != nil {
		vc.fail("defer inside a loop is outside the subset (%s)", vc.fn)
	}
	st.defers = append(st.defers, &deferRec{in: x, guard: reach})
}

// runDefers executes the recorded deferred calls, last registered first. cond is the condition
// under which the defers run at this point.
func (vc *VC) runDefersOn(st *State, cond Term) {
	recs := append([]*deferRec(nil), st.defers...)
	order := map[*ssa.BasicBlock]int{}
	for i, b := range vc.rpo() {
		order[b] = i
	}
	idx := func(d *ssa.Defer) int {
		for i, in := range d.Block().Instrs {
			if in == ssa.Instruction(d) {
				return i
			}
		}
		return 0
	}
	sort.SliceStable(recs, func(i, j int) bool {
		bi, bj := order[recs[i].in.Block()], order[recs[j].in.Block()]
		if bi != bj {
			return bi > bj
		}
		return idx(recs[i].in) > idx(recs[j].in)
	})
	for _, r := range recs {
		pre := st.clone()
		g := vc.define(fmt.Sprintf("defer_%d", r.in.Block().Index), "Bool", and(cond, r.guard))
		sDepth, sIn := vc.deferDepth, vc.inRunDefers
		vc.deferDepth, vc.inRunDefers = vc.inlineDepth, true
		vc.call(r.in, r.in.Common(), st, g)
		vc.deferDepth, vc.inRunDefers = sDepth, sIn
		vc.reachOverride = ""
		for _, k := range sortedKeys(st.heaps) {
			v := st.heaps[k]
			srt := vc.heapSort[k]
			old := vc.heapGet(pre, k, srt)
			if old != v {
				st.heaps[k] = vc.define(k, srt, ite(r.guard, v, old))
			}
		}
	}
	st.defers = nil
}

func (vc *VC) runDefers(x *ssa.RunDefers, st *State, reach Term) {
	vc.runDefersOn(st, reach)
}
