package main

// Two small call-history ghosts (DESIGN.md 0.9).
//
// invoked(f): a function value was called through a `purefield` during this activation. Lets a
//   contract say which of several stored callbacks (cancel functions) a method calls.
//
// tally(name): an interface method under contract with the clause `tallies KEY by AMOUNT` adds
//   AMOUNT to a per-key ghost counter at every call; tally(k) is the net amount this activation has
//   added under key k. Lets a contract state how a method changes a named counter that lives behind
//   an interface (status variables).

import (
	"go/types"
	"sort"
	"strings"
)

const (
	ghostInvoked = "$invoked"
	ghostTally   = "$tally"
	// streamPosHeap: how many elements each iterator object has handed out. It behaves like memory
	// (callees without a frame havoc it; a function that declares a frame may not advance a stream).
	streamPosHeap = "StreamPos"
	streamPosSort = "(Array Dyn Int)"
	// ghostCallsPrefix + method name: how often this activation called that interface method on
	// each receiver (methods whose contract says `counts`)
	ghostCallsPrefix = "$calls:"
	ghostCallsSort   = "(Array Dyn Int)"
)

// streamAdvance: an interface method whose contract says `stream` hands out the next element of its
// receiver: the receiver's position goes up by one (its results are named, in the contract, as
// functions of the receiver and the position before the call).
func (vc *VC) streamAdvance(self Val, st *State) {
	cur := vc.heapGet(st, streamPosHeap, streamPosSort)
	vc.heapSet(st, streamPosHeap, streamPosSort, app("store", cur, self.t, app("+", app("select", cur, self.t), "1")))
}

// countCall: an interface method whose contract says `counts`.
func (vc *VC) countCall(method string, self Val, st *State) {
	name := ghostCallsPrefix + method
	cur := vc.heapGet(st, name, ghostCallsSort)
	vc.heapSet(st, name, ghostCallsSort, app("store", cur, self.t, app("+", app("select", cur, self.t), "1")))
}

func (vc *VC) callsGet(st *State, method string) Term {
	return vc.heapGet(st, ghostCallsPrefix+method, ghostCallsSort)
}

// countedMethods: names of the interface methods whose contract says `counts` (their ghost counters
// start at zero in every activation).
func (vc *VC) countedMethods() []string {
	var out []string
	seen := map[string]bool{}
	for _, fi := range vc.P.funcs {
		if fi.fc.Counts && !seen[fi.fc.Name] {
			seen[fi.fc.Name] = true
			out = append(out, fi.fc.Name)
		}
	}
	sort.Strings(out)
	return out
}

func (vc *VC) ghostInit(st *State) {
	vc.heapSet(st, ghostInvoked, "(Array Int Bool)", "((as const (Array Int Bool)) false)")
	vc.heapSet(st, ghostTally, "(Array Int Int)", "((as const (Array Int Int)) 0)")
	for _, m := range vc.countedMethods() {
		vc.heapSet(st, ghostCallsPrefix+m, ghostCallsSort, "((as const "+ghostCallsSort+") 0)")
	}
}

func (vc *VC) noteInvoked(st *State, fv Term) {
	cur := vc.heapGet(st, ghostInvoked, "(Array Int Bool)")
	vc.heapSet(st, ghostInvoked, "(Array Int Bool)", app("store", cur, fv, "true"))
}

// tallyCall: the callee contract fi has `tallies KEY by AMOUNT` (parameter names).
func (vc *VC) tallyCall(fi *FuncInfo, env map[string]Val, st *State) {
	f := strings.Fields(fi.fc.Tallies)
	if len(f) != 3 || f[1] != "by" {
		vc.fail("%s: tallies KEY by AMOUNT", fi.fc.Key)
	}
	k, ok1 := env[f[0]]
	a, ok2 := env[f[2]]
	if !ok1 || !ok2 {
		vc.fail("%s: tallies: unknown parameter", fi.fc.Key)
	}
	key := vc.mapKeyTerm(vc.asTerm(k), types.Typ[types.String])
	cur := vc.heapGet(st, ghostTally, "(Array Int Int)")
	vc.heapSet(st, ghostTally, "(Array Int Int)", app("store", cur, key, app("+", app("select", cur, key), vc.asTerm(a))))
}

func (ex *exprTr) ghostBuiltin(name string, args []Val, rt types.Type) (Val, bool) {
	vc := ex.vc
	switch name {
	case "verif_invoked":
		return Val{t: app("select", vc.heapGet(ex.st, ghostInvoked, "(Array Int Bool)"), vc.asTerm(args[0])), typ: rt}, true
	case "verif_tally":
		key := vc.mapKeyTerm(vc.asTerm(args[0]), types.Typ[types.String])
		return Val{t: app("select", vc.heapGet(ex.st, ghostTally, "(Array Int Int)"), key), typ: rt}, true
	case "verif_streamPos":
		pos := app("select", vc.heapGet(ex.st, streamPosHeap, streamPosSort), ex.coerceDyn(args[0]))
		if !vc.noDefine {
			// a count of calls made so far: a non-negative int (2^63 calls do not happen)
			vc.addAssume("true", and(app("<=", "0", pos), app("<=", pos, "9223372036854775807")))
		}
		return Val{t: pos, typ: rt}, true
	}
	return Val{}, false
}

// coerceDyn: a value as an interface value (boxed when its static type is concrete).
func (ex *exprTr) coerceDyn(v Val) Term {
	if isInterface(v.typ) {
		return v.t
	}
	return app(ex.vc.S.boxOf(v.typ).ctor, ex.vc.asTerm(v))
}

// callsBuiltin: calls(recv, "Method") -- how often this activation called that interface method on recv.
func (ex *exprTr) callsBuiltin(recv Val, method string, rt types.Type) Val {
	return Val{t: app("select", ex.vc.callsGet(ex.st, method), ex.coerceDyn(recv)), typ: rt}
}
