package main

// Two small call-history ghosts (DESIGN.md 0.9).
//
// invoked(f): a function value was called through a `purefield` during this activation. Lets a
//   contract say which of several stored callbacks (cancel functions) a method calls.
//
// tally(name): an interface method under contract with the clause `tallies KEY by AMOUNT` adds
//   AMOUNT to a per-key ghost counter at every call; tally(k) is the net amount this activation has
//   added under key k. Lets a contract state how a method changes a named counter that lives behind
//   an interface (status variables).

import (
	"go/types"
	"strings"
)

const (
	ghostInvoked = "$invoked"
	ghostTally   = "$tally"
)

func (vc *VC) ghostInit(st *State) {
	vc.heapSet(st, ghostInvoked, "(Array Int Bool)", "((as const (Array Int Bool)) false)")
	vc.heapSet(st, ghostTally, "(Array Str Int)", "((as const (Array Str Int)) 0)")
}

func (vc *VC) noteInvoked(st *State, fv Term) {
	cur := vc.heapGet(st, ghostInvoked, "(Array Int Bool)")
	vc.heapSet(st, ghostInvoked, "(Array Int Bool)", app("store", cur, fv, "true"))
}

// tallyCall: the callee contract fi has `tallies KEY by AMOUNT` (parameter names).
func (vc *VC) tallyCall(fi *FuncInfo, env map[string]Val, st *State) {
	f := strings.Fields(fi.fc.Tallies)
	if len(f) != 3 || f[1] != "by" {
		vc.fail("%s: tallies KEY by AMOUNT", fi.fc.Key)
	}
	k, ok1 := env[f[0]]
	a, ok2 := env[f[2]]
	if !ok1 || !ok2 {
		vc.fail("%s: tallies: unknown parameter", fi.fc.Key)
	}
	key := vc.mapKeyTerm(vc.asTerm(k), types.Typ[types.String])
	cur := vc.heapGet(st, ghostTally, "(Array Str Int)")
	vc.heapSet(st, ghostTally, "(Array Str Int)", app("store", cur, key, app("+", app("select", cur, key), vc.asTerm(a))))
}

func (ex *exprTr) ghostBuiltin(name string, args []Val, rt types.Type) (Val, bool) {
	vc := ex.vc
	switch name {
	case "verif_invoked":
		return Val{t: app("select", vc.heapGet(ex.st, ghostInvoked, "(Array Int Bool)"), vc.asTerm(args[0])), typ: rt}, true
	case "verif_tally":
		key := vc.mapKeyTerm(vc.asTerm(args[0]), types.Typ[types.String])
		return Val{t: app("select", vc.heapGet(ex.st, ghostTally, "(Array Str Int)"), key), typ: rt}, true
	}
	return Val{}, false
}
