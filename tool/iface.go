package main

// Interface contracts (DESIGN.md §3.5): a contract on `Iface.M` is (a) assumed at every
// `invoke` of M on a value of that interface type and (b) an obligation on every method of the
// repository that implements it (behavioural subtyping). A `closed Iface: T1, T2, ...` declaration
// states that these are all implementations; it is checked against the loaded program on every run
// and then lets a value of the interface type be assumed to be nil or one of the listed boxes.

import (
	"fmt"
	"go/types"
	"sort"
	"strings"
)

// ifaceContractsFor: the interface-method contracts that the concrete method fi implements.
func (P *Program) ifaceContractsFor(fi *FuncInfo) []*FuncInfo {
	if fi == nil || fi.fn == nil || fi.sig.Recv() == nil {
		return nil
	}
	var out []*FuncInfo
	var keys []string
	for k := range P.funcs {
		keys = append(keys, k)
	}
	sort.Strings(keys)
	for _, k := range keys {
		ifi := P.funcs[k]
		if !ifi.fc.IsIface || ifi.fc.Trusted || ifi.missing != "" || ifi.fc.Name != fi.fc.Name {
			continue
		}
		it, ok := ifi.ptypes[0].Underlying().(*types.Interface)
		if ok && types.Implements(fi.sig.Recv().Type(), it) {
			out = append(out, ifi)
		}
	}
	return out
}

// ifaceEnv binds the interface contract's names (self, arg0, ...) to the implementing method's
// receiver (boxed) and parameters, by position.
func (vc *VC) ifaceEnv(ifi *FuncInfo) map[string]Val {
	env := map[string]Val{}
	ps := vc.fn.Params
	if len(ps) == 0 {
		return env
	}
	recv := vc.vals[ps[0]]
	rt := ps[0].Type()
	if isInterface(rt) {
		env["self"] = recv
	} else {
		env["self"] = Val{t: app(vc.S.boxOf(rt).ctor, vc.asTerm(recv)), typ: ifi.ptypes[0]}
	}
	for i := 1; i < len(ifi.params) && i < len(ps); i++ {
		env[ifi.params[i]] = vc.vals[ps[i]]
	}
	return env
}

type closedDecl struct {
	iface string
	impls []string
	line  int
}

// closedFacts returns, for a value e of (closed) interface type t, the fact that e is nil or one of
// the declared implementations; "" if t is not declared closed.
func (vc *VC) closedFact(t types.Type, e Term) Term {
	n, ok := t.(*types.Named)
	if !ok || n.Obj().Pkg() == nil {
		return ""
	}
	pc := vc.P.pcs[n.Obj().Pkg().Path()]
	pkg := vc.P.pkgs[n.Obj().Pkg().Path()]
	if pc == nil || pkg == nil {
		return ""
	}
	for _, cd := range pc.Closed {
		if cd.iface != n.Obj().Name() {
			continue
		}
		alts := []Term{app("(_ is dnil)", e)}
		for _, in := range cd.impls {
			ptr := strings.HasPrefix(in, "*")
			o := pkg.Types.Scope().Lookup(strings.TrimPrefix(in, "*"))
			if o == nil {
				vc.fail("closed %s: unknown implementation %s", cd.iface, in)
			}
			ty := types.Type(o.Type())
			if ptr {
				ty = types.NewPointer(ty)
			}
			alts = append(alts, app("(_ is "+vc.S.boxOf(ty).ctor+")", e))
		}
		vc.assume(fmt.Sprintf("closed world: %s is implemented only by %s (checked against every loaded package on each run)", cd.iface, strings.Join(cd.impls, ", ")))
		return or(alts...)
	}
	return ""
}

// checkClosed verifies each `closed` declaration against the loaded program: every named type (or
// pointer to it) in a loaded module package that implements the interface must be listed.
func (P *Program) checkClosed() []string {
	var problems []string
	for ip, pc := range P.pcs {
		pkg := P.pkgs[ip]
		if pkg == nil {
			continue
		}
		for _, cd := range pc.Closed {
			o := pkg.Types.Scope().Lookup(cd.iface)
			if o == nil {
				problems = append(problems, fmt.Sprintf("closed %s: no such type in %s", cd.iface, ip))
				continue
			}
			it, ok := o.Type().Underlying().(*types.Interface)
			if !ok {
				problems = append(problems, fmt.Sprintf("closed %s: not an interface", cd.iface))
				continue
			}
			listed := map[string]bool{}
			for _, in := range cd.impls {
				listed[in] = true
			}
			for path, p := range P.pkgs {
				if !strings.HasPrefix(path, modPath) || p.Types == nil {
					continue
				}
				for _, name := range p.Types.Scope().Names() {
					tn, ok := p.Types.Scope().Lookup(name).(*types.TypeName)
					if !ok || tn.IsAlias() {
						continue
					}
					if _, isIface := tn.Type().Underlying().(*types.Interface); isIface {
						continue
					}
					q := name
					if p.Types != pkg.Types {
						q = p.Types.Name() + "." + name
					}
					if types.Implements(tn.Type(), it) && !listed[q] {
						problems = append(problems, fmt.Sprintf("closed %s: %s implements it but is not listed", cd.iface, q))
					} else if !types.Implements(tn.Type(), it) && types.Implements(types.NewPointer(tn.Type()), it) && !listed["*"+q] {
						problems = append(problems, fmt.Sprintf("closed %s: *%s implements it but is not listed", cd.iface, q))
					}
				}
			}
		}
	}
	sort.Strings(problems)
	return problems
}
