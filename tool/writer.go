package main

// Writers with ghost contents (DESIGN.md 0.11). What has been written to an io.Writer so far is kept,
// per writer value, in the ghost heap WriterAcc (Array Dyn Bytes), so a contract can say exactly what a
// function writes:
//   written(w)   the bytes written to w so far (w an io.Writer or a *xxhash.Digest)
// Assumed contracts (external, listed on every use):
//   io.Writer.Write(p): on success (err == nil) appends exactly p and returns len(p); on failure the
//     contents are unknown; it touches no memory the caller can observe.
//   (*xxhash.Digest).Write / WriteString append exactly their argument and never fail, Reset empties,
//     Sum64 is a function (uninterpreted, xxh64) of the contents.
// A contract names the ghost heap in a frame as `modifies heap writers`.

import (
	"go/token"
	"go/types"
	"strconv"
	"strings"

	"golang.org/x/tools/go/ssa"
)

const writerAccHeap = "WriterAcc"
const writerAccSort = "(Array Dyn Bytes)"
const xxDigestPrefix = "(*github.com/cespare/xxhash/v2.Digest)."

func isIOWriter(t types.Type) bool {
	n, ok := types.Unalias(t).(*types.Named)
	return ok && n.Obj().Pkg() != nil && n.Obj().Pkg().Path() == "io" && n.Obj().Name() == "Writer"
}

func isXXDigest(t types.Type) bool {
	if p, ok := t.Underlying().(*types.Pointer); ok {
		t = p.Elem()
	}
	n, ok := types.Unalias(t).(*types.Named)
	return ok && n.Obj().Pkg() != nil && n.Obj().Pkg().Path() == "github.com/cespare/xxhash/v2" && n.Obj().Name() == "Digest"
}

// writerKey: the writer as an interface value (a concrete pointer is boxed the way MakeInterface boxes it).
func (vc *VC) writerKey(v Val) Term {
	if isInterface(v.typ) {
		return v.t
	}
	return app(vc.S.boxOf(v.typ).ctor, vc.asTerm(v))
}

func (vc *VC) writerAcc(st *State) Term {
	vc.bytesOn()
	return vc.heapGet(st, writerAccHeap, writerAccSort)
}

// smallWindowFacts: for a slice of 1, 2, 3, 4 or 8 bytes the byte-sequence view equals the concatenation
// of its single bytes (true by the definitions of bytes.of / bytes.cat; stated as ground facts because the
// solvers do not derive an equality between sequences from their elements unless asked).
func (vc *VC) smallWindowFacts(st *State, s Term, reach Term) {
	hn, sort := vc.memName(types.Typ[types.Uint8])
	arr := app("select", vc.heapGet(st, hn, sort), slRef(s))
	whole := app("bytes.of", arr, slOff(s), slLen(s))
	for _, n := range []int{1, 2, 3, 4, 8} {
		var t Term
		for k := 0; k < n; k++ {
			b := vc.bsingle(app("select", arr, app("+", slOff(s), strconv.Itoa(k))))
			if k == 0 {
				t = b
			} else {
				t = app("bytes.cat", t, b)
			}
		}
		vc.addAssume(reach, implies(eq(slLen(s), strconv.Itoa(n)), eq(whole, t)))
	}
}

// writerInvoke: a call of io.Writer.Write through the interface.
func (vc *VC) writerInvoke(c *ssa.CallCommon, args []Val, st *State, reach Term, rt types.Type, pos token.Pos) (Val, bool) {
	if !c.IsInvoke() || c.Method.Name() != "Write" || !isIOWriter(c.Value.Type()) {
		return Val{}, false
	}
	tup, ok := rt.(*types.Tuple)
	if !ok || tup.Len() != 2 {
		return Val{}, false
	}
	vc.oblige("safe:nil", "invoke", reach, not(app("(_ is dnil)", args[0].t)), pos, vc.construct(pos))
	h := vc.writerAcc(st)
	key := args[0].t
	cur := app("select", h, key)
	e := vc.freshConst("werr", "Dyn")
	n := vc.freshConst("wrote", "Int")
	junk := vc.freshConst("wjunk", bytesSort)
	p := vc.bytesOfSlice(st, args[1].t)
	vc.smallWindowFacts(st, args[1].t, reach)
	okT := app("(_ is dnil)", e)
	vc.addAssume(reach, and(app("<=", "0", n), app("<=", n, slLen(args[1].t)), implies(okT, eq(n, slLen(args[1].t)))))
	vc.heapSet(st, writerAccHeap, writerAccSort, app("store", h, key, ite(okT, app("bytes.cat", cur, p), junk)))
	vc.assume("assumed contract: io.Writer.Write(p) with err == nil appends exactly p to what the writer has received and returns len(p); on an error the contents are unknown; it writes no memory the caller can observe")
	return Val{tuple: []Val{{t: n, typ: tup.At(0).Type()}, {t: e, typ: tup.At(1).Type()}}, typ: rt}, true
}

// digestModel: static calls of (*xxhash.Digest) methods.
func (vc *VC) digestModel(name string, args []Val, st *State, reach Term, rt types.Type, pos token.Pos) (Val, bool) {
	if name == "github.com/cespare/xxhash/v2.New" {
		// a new digest: a fresh object that has received nothing
		r := vc.freshRef(st, "xxdigest")
		v := Val{t: r, typ: rt}
		h := vc.writerAcc(st)
		vc.heapSet(st, writerAccHeap, writerAccSort, app("store", h, vc.writerKey(v), bytesEmpty))
		vc.assume("assumed contract: xxhash.New returns a new digest that has received nothing")
		return v, true
	}
	if !strings.HasPrefix(name, xxDigestPrefix) || len(args) == 0 {
		return Val{}, false
	}
	lv := vc.lvOf(args[0])
	vc.nilCheck(lv, reach, pos, "method call on nil receiver")
	h := vc.writerAcc(st)
	key := vc.writerKey(args[0])
	cur := app("select", h, key)
	appendBytes := func(b Term) {
		vc.heapSet(st, writerAccHeap, writerAccSort, app("store", h, key, app("bytes.cat", cur, b)))
	}
	nilErr := func(n Term) Val {
		if tup, ok := rt.(*types.Tuple); ok && tup.Len() == 2 {
			return Val{tuple: []Val{{t: n, typ: tup.At(0).Type()}, {t: "dnil", typ: tup.At(1).Type()}}, typ: rt}
		}
		return Val{t: "dnil", typ: rt}
	}
	vc.assume("assumed contract: xxhash.Digest: Write/WriteString append exactly their argument and return (len, nil), Reset empties, Sum64 is a function of the bytes written since the last Reset: " + name)
	switch name[len(xxDigestPrefix):] {
	case "Write":
		vc.smallWindowFacts(st, args[1].t, reach)
		appendBytes(vc.bytesOfSlice(st, args[1].t))
		return nilErr(slLen(args[1].t)), true
	case "WriteString":
		appendBytes(vc.bytesOfString(args[1].t))
		return nilErr(strLen(args[1].t)), true
	case "Reset":
		vc.heapSet(st, writerAccHeap, writerAccSort, app("store", h, key, bytesEmpty))
		return Val{typ: rt}, true
	case "Sum64":
		f := vc.declareFun("bytes.xxh64", []string{bytesSort}, "Int")
		r := app(f, cur)
		vc.addAssume("true", and(app("<=", "0", r), app("<=", r, "18446744073709551615")))
		return Val{t: r, typ: rt}, true
	}
	return Val{}, false
}

// writtenBuiltin: written(w) in a contract.
func (ex *exprTr) writtenBuiltin(w Val, rt types.Type) Val {
	vc := ex.vc
	if !isInterface(w.typ) && !isXXDigest(w.typ) {
		vc.fail("contract: written() needs an io.Writer or a *xxhash.Digest")
	}
	return Val{t: app("select", vc.writerAcc(ex.st), vc.writerKey(w)), typ: rt}
}
