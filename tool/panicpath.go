package main

// Panic paths. Only functions that contain a defer statement (go/ssa gives them a Recover
// block) are executed in "panic mode"; everywhere else a panic is simply an obligation
// (safe:panic) and calls without contract are assumed not to panic.
//
// In panic mode
//   - an explicit panic(v) and every call without contract (function values, interface
//     methods, external functions) is a possible panic exit: the state at that point (after the
//     call's havoc) is recorded with its condition and the panic value (any non-nil value for
//     calls), and normal execution continues under "the call returned";
//   - at the end, the recorded exits are merged, the deferred calls registered so far run
//     with the ghost variables $panicking = true, $pval = the panic value; recover(), when it is
//     called directly by a deferred function literal, returns $pval and clears $panicking;
//   - if $panicking can still be true after the defers the panic leaves the function: that is the
//     obligation safe:panic:propagates (unless the contract says may_panic); otherwise execution
//     continues at the function's Recover block, whose return is checked against the
//     postconditions like any other return.
//   - ghost outcomes of the call of a function-valued variable f are available to contracts as
//     callPanicked(f), callReturned(f), callResult(f).

import (
	"go/token"
	"go/types"

	"golang.org/x/tools/go/ssa"
)

type panicExit struct {
	cond Term
	st   *State
	pval Term
}

type callGhost struct {
	at       Term // reach of the call site
	panicked Term
	result   Val
	calls    int
}

const panickingVar = "$panicking"
const pvalVar = "$pval"

func hasDefer(fn *ssa.Function) bool { return fn.Recover != nil }

// deferredRecover: some deferred function literal of fn calls recover() directly.
func deferredRecover(fn *ssa.Function) bool {
	for _, b := range fn.Blocks {
		for _, in := range b.Instrs {
			d, ok := in.(*ssa.Defer)
			if !ok {
				continue
			}
			var lit *ssa.Function
			switch v := d.Call.Value.(type) {
			case *ssa.MakeClosure:
				lit, _ = v.Fn.(*ssa.Function)
			case *ssa.Function:
				if v.Parent() != nil {
					lit = v
				}
			}
			if lit == nil {
				continue
			}
			for _, lb := range lit.Blocks {
				for _, li := range lb.Instrs {
					if c, ok := li.(ssa.CallInstruction); ok {
						if bi, ok := c.Common().Value.(*ssa.Builtin); ok && bi.Name() == "recover" {
							return true
						}
					}
				}
			}
		}
	}
	return false
}

func (vc *VC) initPanicMode(entry *State) {
	// panic paths are explored only where the function tries to stop them; elsewhere a callee's
	// panic simply propagates, which is the callee's obligation (calls without contract are
	// assumed not to panic, as in functions without defer)
	vc.panicMode = hasDefer(vc.fn) && deferredRecover(vc.fn)
	if !vc.panicMode {
		return
	}
	vc.heapSort[panickingVar] = "Bool"
	vc.heapSort[pvalVar] = "Dyn"
	entry.heaps[panickingVar] = "false"
	entry.heaps[pvalVar] = "dnil"
}

// calleeVarName names the source variable a dynamic callee was read from (parameter, captured
// variable or spilled parameter), "" if it is not a plain variable.
func calleeVarName(v ssa.Value) string {
	switch x := v.(type) {
	case *ssa.Parameter:
		return x.Name()
	case *ssa.FreeVar:
		return x.Name()
	case *ssa.UnOp:
		if x.Op == token.MUL {
			switch y := x.X.(type) {
			case *ssa.FreeVar:
				return y.Name()
			case *ssa.Alloc:
				return y.Comment
			}
		}
	}
	return ""
}

// mayPanicCall is called for a call without contract after its effects were applied to st.
// It returns the reach condition of the normal continuation.
func (vc *VC) mayPanicCall(c *ssa.CallCommon, res Val, st *State, reach Term) {
	name := ""
	if !c.IsInvoke() && c.StaticCallee() == nil {
		name = calleeVarName(c.Value)
	}
	if !vc.panicMode || vc.inRunDefers {
		if vc.inRunDefers {
			vc.assume("a deferred call without contract is assumed not to panic")
		}
		if name != "" {
			vc.noteGhost(name, reach, "false", res)
		}
		return
	}
	pk := vc.freshConst("panics", "Bool")
	pv := vc.freshConst("pval", "Dyn")
	vc.addAssume("true", not(app("(_ is dnil)", pv)))
	vc.panicExits = append(vc.panicExits, panicExit{cond: and(reach, pk), st: st.clone(), pval: pv})
	vc.assume("in functions with defer, a call without contract may return or panic with any non-nil value")
	if name != "" {
		vc.noteGhost(name, reach, pk, res)
	}
	vc.setReach(vc.define("returned", "Bool", and(reach, not(pk))))
}

func (vc *VC) noteGhost(name string, at, panicked Term, res Val) {
	if vc.callGhosts == nil {
		vc.callGhosts = map[string]*callGhost{}
	}
	g := vc.callGhosts[name]
	if g == nil {
		g = &callGhost{}
		vc.callGhosts[name] = g
	}
	g.calls++
	g.at, g.panicked, g.result = at, panicked, res
}

func (vc *VC) ghostOf(name string) *callGhost {
	g := vc.callGhosts[name]
	if g == nil {
		return &callGhost{at: "false", panicked: "false"}
	}
	if g.calls > 1 {
		vc.fail("contract: call outcome of %s is ambiguous: it is called at %d sites", name, g.calls)
	}
	return g
}

func (vc *VC) setReach(t Term) { vc.reachOverride = t }

// panicNow records an explicit panic(v) as an exit (panic mode only).
func (vc *VC) panicNow(x *ssa.Panic, st *State, reach Term) {
	pv := vc.asDyn(vc.val(x.X), x.X.Type())
	vc.panicExits = append(vc.panicExits, panicExit{cond: reach, st: st.clone(), pval: pv})
}

// recoverCall models the builtin recover().
func (vc *VC) recoverCall(st *State, rt types.Type) Val {
	if vc.inlineDepth == 0 {
		// the function under verification is itself the (possibly deferred) caller of recover: it
		// does not know whether a panic is in flight
		vc.assume("recover() in the function under verification returns an arbitrary value (nil when no panic is in flight)")
		return vc.freshTyped(st, "recovered", rt, "true")
	}
	if _, ok := vc.heapSort[panickingVar]; !ok || vc.inlineDepth != vc.deferDepth+1 {
		// not called directly by a deferred function: recover returns nil and stops nothing
		return Val{t: "dnil", typ: rt}
	}
	p := vc.heapGet(st, panickingVar, "Bool")
	v := vc.heapGet(st, pvalVar, "Dyn")
	r := vc.define("recovered", "Dyn", ite(p, v, "dnil"))
	st.heaps[panickingVar] = "false"
	return Val{t: r, typ: rt}
}

// finishPanics runs after the normal paths of the function under verification were executed.
func (vc *VC) finishPanics() {
	if !vc.panicMode || len(vc.panicExits) == 0 {
		return
	}
	exits := vc.panicExits
	vc.panicExits = nil
	var conds []Term
	var sts []*State
	for _, e := range exits {
		conds = append(conds, e.cond)
		sts = append(sts, e.st)
	}
	m := vc.mergeStates(conds, sts)
	pc := vc.define("panic_reach", "Bool", or(conds...))
	pv := exits[len(exits)-1].pval
	for j := len(exits) - 2; j >= 0; j-- {
		pv = ite(exits[j].cond, exits[j].pval, pv)
	}
	m.heaps[panickingVar] = "true"
	m.heaps[pvalVar] = vc.define("pval", "Dyn", pv)
	vc.runDefersOn(m, pc)
	still := vc.heapGet(m, panickingVar, "Bool")
	pos := vc.fn.Pos()
	if vc.fi == nil || !vc.fi.fc.MayPanic {
		cond := not(still)
		if vc.fi != nil && len(vc.fi.fc.PanicsWhen) > 0 {
			var cs []Term
			for _, cl := range vc.fi.fc.PanicsWhen {
				cs = append(cs, vc.clauseTerm(vc.fi, cl, vc.params, nil, vc.entry, vc.entry))
			}
			cond = or(append(cs, cond)...)
		}
		vc.oblige("safe:panic", "propagates", pc, cond, pos, "a panic raised in "+vc.fn.Name()+" (or in a function it calls) is not recovered")
	}
	if vc.fn.Recover != nil {
		vc.runFrom(vc.fn.Recover, m, vc.define("recovered_reach", "Bool", and(pc, not(still))))
	}
}

// runFrom executes the blocks reachable from b, starting in state st under condition reach.
func (vc *VC) runFrom(b *ssa.BasicBlock, st *State, reach Term) {
	sStart, sBase := vc.startBlock, vc.baseReach
	vc.startBlock, vc.baseReach = b, reach
	seen := map[*ssa.BasicBlock]bool{}
	var post []*ssa.BasicBlock
	var dfs func(x *ssa.BasicBlock)
	dfs = func(x *ssa.BasicBlock) {
		seen[x] = true
		for _, s := range x.Succs {
			if !seen[s] && !vc.isBackEdge(x, s) {
				dfs(s)
			}
		}
		post = append(post, x)
	}
	dfs(b)
	for i := len(post) - 1; i >= 0; i-- {
		vc.block(post[i], st)
	}
	vc.startBlock, vc.baseReach = sStart, sBase
}
