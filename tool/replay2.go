package main

import "fmt"

// replayResult tries the model's initial heap first; for obligations inside loops the
// counterexample describes an arbitrary iteration (the heap at the loop head is havocked), so
// the contents of the havocked heap versions are tried as inputs too.
func replayResult(P *Program, r *Result) (note, suffix string) {
	note, suffix = replayOnce(P, r, 0)
	if suffix == "" || r.Status != "sat" || r.vc == nil || len(r.vc.havocked) == 0 {
		return
	}
	first := r.Replay
	max := 0
	for _, hs := range r.vc.havocked {
		if len(hs) > max {
			max = len(hs)
		}
	}
	if max > 5 {
		max = 5
	}
	for cand := 1; cand <= max; cand++ {
		n2, s2 := replayOnce(P, r, cand)
		if s2 == "" {
			r.Replay.Verdict += " (inputs taken from the heap state at the loop head of the counterexample)"
			return n2 + " (inputs taken from the heap state at the loop head of the counterexample)", ""
		}
		first.Tried = append(first.Tried, fmt.Sprintf("heap version candidate %d: inputs %v: %s", cand, r.Replay.Inputs, r.Replay.Verdict))
	}
	r.Replay = first
	return
}

func (g *goBuilder) heapVal(name string) *Sexp {
	hs := g.vc.havocked[name]
	if g.cand >= 1 && len(hs) > 0 {
		k := g.cand - 1
		if k >= len(hs) {
			k = len(hs) - 1
		}
		return g.m.get(hs[k])
	}
	return g.m.get(sym(name + "@0"))
}
