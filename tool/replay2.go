package main

import (
	"fmt"
	"go/types"
	"strings"
)

func isByteSeq(t types.Type) bool {
	if isString(t) {
		return true
	}
	if sl, ok := t.Underlying().(*types.Slice); ok {
		if b, ok := sl.Elem().Underlying().(*types.Basic); ok && b.Kind() == types.Uint8 {
			return true
		}
	}
	return false
}

// replayResult tries the model's initial heap first; for obligations inside loops the
// counterexample describes an arbitrary iteration (the heap at the loop head is havocked), so
// the contents of the havocked heap versions and the loop-head values of re-assigned parameters
// are tried as inputs too. Last, for panic-class obligations, byte contents that the model leaves
// unconstrained are concretised from a small fixed pattern set.
func replayResult(P *Program, r *Result) (note, suffix string) {
	note, suffix = replayOnce(P, r, 0)
	if suffix == "" || r.Status != "sat" || r.vc == nil {
		return
	}
	first := r.Replay
	if len(r.vc.havocked) > 0 || len(r.vc.loops) > 0 {
		max := 1
		for _, hs := range r.vc.havocked {
			if len(hs) > max {
				max = len(hs)
			}
		}
		if max > 5 {
			max = 5
		}
		for cand := 1; cand <= max; cand++ {
			n2, s2 := replayOnce(P, r, cand)
			if s2 == "" {
				r.Replay.Verdict += " (inputs taken from the state at the loop head of the counterexample)"
				return n2 + " (inputs taken from the state at the loop head of the counterexample)", ""
			}
			first.Tried = append(first.Tried, fmt.Sprintf("loop-head candidate %d: inputs %v: %s", cand, r.Replay.Inputs, r.Replay.Verdict))
		}
	}
	if strings.HasPrefix(r.Class, "safe:") && r.vc.fn != nil {
		hasBytes := false
		for _, p := range r.vc.fn.Params {
			if isByteSeq(p.Type()) {
				hasBytes = true
			}
		}
		if hasBytes {
			n2, s2 := replayOnce(P, r, -1)
			if s2 == "" {
				r.Replay.Verdict += " (byte contents left unconstrained by the model were concretised from a fixed pattern set)"
				return n2 + " (byte contents left unconstrained by the model were concretised from a fixed pattern set)", ""
			}
			first.Tried = append(first.Tried, "byte-pattern concretisation: "+r.Replay.Verdict)
		}
	}
	r.Replay = first
	return
}

func (g *goBuilder) heapVal(name string) *Sexp {
	hs := g.vc.havocked[name]
	if g.cand >= 1 && len(hs) > 0 {
		k := g.cand - 1
		if k >= len(hs) {
			k = len(hs) - 1
		}
		return g.m.get(hs[k])
	}
	return g.m.get(sym(name + "@0"))
}
