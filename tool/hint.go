package main

import (
	"go/ast"
	"go/token"
)

// hintShape checks that a hint only instantiates definitions: unfold(f(...)) atoms combined with
// &&, implications and bounded quantifiers. Returns "" if fine, else a description of the offender.
func hintShape(e ast.Expr) string {
	switch x := e.(type) {
	case *ast.ParenExpr:
		return hintShape(x.X)
	case *ast.BinaryExpr:
		if x.Op == token.LAND {
			if b := hintShape(x.X); b != "" {
				return b
			}
			return hintShape(x.Y)
		}
	case *ast.CallExpr:
		name := ""
		if id, ok := x.Fun.(*ast.Ident); ok {
			name = id.Name
		}
		switch name {
		case "verif_unfold":
			return ""
		case "verif_old":
			return hintShape(x.Args[0])
		case "verif_implies":
			return hintShape(x.Args[1])
		case "verif_forallRange":
			if fl, ok := x.Args[2].(*ast.FuncLit); ok {
				return hintShape(fl.Body.List[0].(*ast.ReturnStmt).Results[0])
			}
		case "verif_forall":
			if fl, ok := x.Args[0].(*ast.FuncLit); ok {
				return hintShape(fl.Body.List[0].(*ast.ReturnStmt).Results[0])
			}
		}
	}
	return "an expression that is not an unfold(...) atom"
}
