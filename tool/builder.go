package main

// strings.Builder with ghost contents: the byte sequence written so far is kept per builder object in
// the heap BuilderAcc (Array Int Bytes), so a contract can say exactly what a function appends:
//   built(b)   the bytes written to *b so far          bsingle(c)   the one-byte sequence c
// Assumed contracts (external, listed on every use): WriteByte/WriteString/Write/WriteRune append
// exactly their argument's bytes and return no error, String returns a string with exactly those
// bytes, Len their number, Grow changes nothing, Reset empties; none of them panics for a non-nil
// builder (a negative Grow is outside the model).

import (
	"go/token"
	"go/types"
)

const builderAccHeap = "BuilderAcc"
const builderAccSort = "(Array Int Bytes)"

func isStringsBuilder(t types.Type) bool {
	if p, ok := t.Underlying().(*types.Pointer); ok {
		t = p.Elem()
	}
	n, ok := types.Unalias(t).(*types.Named)
	return ok && n.Obj().Pkg() != nil && n.Obj().Pkg().Path() == "strings" && n.Obj().Name() == "Builder"
}

func (vc *VC) bsingle(c Term) Term {
	vc.bytesOn()
	return app("bytes.of", app("store", "((as const (Array Int Int)) 0)", "0", c), "0", "1")
}

func (vc *VC) builderModel(name string, args []Val, st *State, reach Term, rt types.Type, pos token.Pos) (Val, bool) {
	const p = "(*strings.Builder)."
	if len(name) <= len(p) || name[:len(p)] != p || len(args) == 0 {
		return Val{}, false
	}
	vc.bytesOn()
	lv := vc.lvOf(args[0])
	vc.nilCheck(lv, reach, pos, "method call on nil receiver")
	ref := vc.ptrTerm(args[0])
	h := vc.heapGet(st, builderAccHeap, builderAccSort)
	cur := app("select", h, ref)
	appendBytes := func(b Term) {
		vc.heapSet(st, builderAccHeap, builderAccSort, app("store", h, ref, app("bytes.cat", cur, b)))
	}
	nilErr := func() Val {
		// (n int, err error) or err error with err == nil
		if tup, ok := rt.(*types.Tuple); ok && tup.Len() == 2 {
			n := vc.freshConst("wrote", "Int")
			return Val{tuple: []Val{{t: n, typ: tup.At(0).Type()}, {t: "dnil", typ: tup.At(1).Type()}}, typ: rt}
		}
		return Val{t: "dnil", typ: rt}
	}
	vc.assume("assumed contract: strings.Builder methods append exactly their argument's bytes to the builder's contents, return no error and do not panic: " + name)
	switch name[len(p):] {
	case "WriteByte":
		appendBytes(vc.bsingle(args[1].t))
		return nilErr(), true
	case "WriteString":
		appendBytes(vc.bytesOfString(args[1].t))
		r := nilErr()
		if r.tuple != nil {
			vc.addAssume(reach, eq(r.tuple[0].t, strLen(args[1].t)))
		}
		return r, true
	case "Write":
		appendBytes(vc.bytesOfSlice(st, args[1].t))
		r := nilErr()
		if r.tuple != nil {
			vc.addAssume(reach, eq(r.tuple[0].t, slLen(args[1].t)))
		}
		return r, true
	case "WriteRune":
		b := vc.freshConst("runebytes", bytesSort)
		vc.addAssume(reach, and(app("<=", "1", app("blen", b)), app("<=", app("blen", b), "4")))
		appendBytes(b)
		r := nilErr()
		if r.tuple != nil {
			vc.addAssume(reach, eq(r.tuple[0].t, app("blen", b)))
		}
		return r, true
	case "String":
		s := vc.freshTyped(st, "built", rt, reach)
		vc.addAssume(reach, eq(vc.bytesOfString(s.t), cur))
		return s, true
	case "Len":
		return Val{t: app("blen", cur), typ: rt}, true
	case "Grow", "Cap":
		return vc.freshTyped(st, "call", rt, reach), true
	case "Reset":
		vc.heapSet(st, builderAccHeap, builderAccSort, app("store", h, ref, bytesEmpty))
		return Val{typ: rt}, true
	}
	return Val{}, false
}
