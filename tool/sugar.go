package main

// Contract sugar -> plain Go (so that go/types can check it):
//   a ==> b            verif_implies(a, b)         (right assoc, binds weaker than ||)
//   a <==> b           verif_iff(a, b)             (weakest)
//   forall x T, y U :: P     verif_forall(func(x T, y U) bool { return P })   (extends to the right)
//   exists x T :: P          verif_exists(func(x T) bool { return P })
//   old(e)  Z(e)  Is[T](v)  As[T](v)    verif_old(e) verif_Z(e) verif_Is[T](v) verif_As[T](v)

import (
	"fmt"
	"go/scanner"
	"go/token"
	"strings"
)

type tok struct {
	tok token.Token
	lit string
	pos int // byte offset
	end int
}

func tokenize(src string) ([]tok, error) {
	fset := token.NewFileSet()
	file := fset.AddFile("", fset.Base(), len(src))
	var s scanner.Scanner
	var errs []string
	s.Init(file, []byte(src), func(pos token.Position, msg string) { errs = append(errs, msg) }, 0)
	var out []tok
	for {
		p, t, lit := s.Scan()
		if t == token.EOF {
			break
		}
		if t == token.SEMICOLON && lit == "\n" {
			// automatic semicolon; keep as a separator token with lit "\n"
			out = append(out, tok{tok: t, lit: "\n", pos: int(p) - file.Base(), end: int(p) - file.Base()})
			continue
		}
		off := int(p) - file.Base()
		l := lit
		if l == "" {
			l = t.String()
		}
		out = append(out, tok{tok: t, lit: l, pos: off, end: off + len(l)})
	}
	if len(errs) > 0 {
		return nil, fmt.Errorf("scan: %s", strings.Join(errs, "; "))
	}
	return out, nil
}

// merge multi-token sugar operators into pseudo tokens
const (
	tIMPL token.Token = token.Token(1000) + iota
	tIFF
	tCOLONCOLON
)

func mergeOps(ts []tok) []tok {
	var out []tok
	for i := 0; i < len(ts); i++ {
		t := ts[i]
		// <==>  scans as  <=  =  >   or  <  ==  >
		if i+2 < len(ts) && t.tok == token.LEQ && ts[i+1].tok == token.ASSIGN && ts[i+2].tok == token.GTR &&
			ts[i+1].pos == t.end && ts[i+2].pos == ts[i+1].end {
			out = append(out, tok{tok: tIFF, lit: "<==>", pos: t.pos, end: ts[i+2].end})
			i += 2
			continue
		}
		if i+1 < len(ts) && t.tok == token.EQL && ts[i+1].tok == token.GTR && ts[i+1].pos == t.end {
			out = append(out, tok{tok: tIMPL, lit: "==>", pos: t.pos, end: ts[i+1].end})
			i++
			continue
		}
		if i+1 < len(ts) && t.tok == token.COLON && ts[i+1].tok == token.COLON && ts[i+1].pos == t.end {
			out = append(out, tok{tok: tCOLONCOLON, lit: "::", pos: t.pos, end: ts[i+1].end})
			i++
			continue
		}
		out = append(out, t)
	}
	return out
}

var identRename = map[string]string{
	"old": "verif_old", "Z": "verif_Z", "Is": "verif_Is", "As": "verif_As", "sameArray": "verif_sameArray", "unfold": "verif_unfold", "same": "verif_same", "has": "verif_has", "invoked": "verif_invoked", "streamPos": "verif_streamPos", "calls": "verif_calls", "tally": "verif_tally", "built": "verif_built", "bempty": "verif_bempty", "written": "verif_written", "utf8rune": "verif_utf8rune", "utf8size": "verif_utf8size", "xxh64": "verif_xxh64", "bsingle": "verif_bsingle", "lastLoad": "verif_lastLoad", "lastCasOld": "verif_lastCasOld", "lastCasNew": "verif_lastCasNew", "lastCasOK": "verif_lastCasOK", "rangeseen": "verif_rangeseen", "fresh": "verif_fresh", "entry": "verif_entry", "offset": "verif_offset", "f64bits": "verif_f64bits", "f64frombits": "verif_f64frombits",
	"callPanicked": "verif_callPanicked", "callReturned": "verif_callReturned", "callResult": "verif_callResult",
	"bytesOf": "verif_bytesOf", "bytesOfStr": "verif_bytesOfStr", "bcat": "verif_bcat", "bxor": "verif_bxor", "btake": "verif_btake",
	"blen": "verif_blen", "bat": "verif_bat", "sha1of": "verif_sha1of", "unhex": "verif_unhex", "hexok": "verif_hexok",
}

func rewriteSugar(src string) (string, error) {
	ts, err := tokenize(src)
	if err != nil {
		return "", err
	}
	ts = mergeOps(ts)
	// drop automatic semicolons (expressions only)
	var t2 []tok
	for _, t := range ts {
		if t.tok == token.SEMICOLON && t.lit == "\n" {
			continue
		}
		t2 = append(t2, t)
	}
	return rewriteToks(t2)
}

func isOpen(t token.Token) bool  { return t == token.LPAREN || t == token.LBRACK || t == token.LBRACE }
func isClose(t token.Token) bool { return t == token.RPAREN || t == token.RBRACK || t == token.RBRACE }

// rewriteToks rewrites one expression-level token sequence.
func rewriteToks(ts []tok) (string, error) {
	if len(ts) == 0 {
		return "", nil
	}
	// quantifier prefix binds everything to the right
	if ts[0].tok == token.IDENT && (ts[0].lit == "forall" || ts[0].lit == "exists") {
		d := 0
		for i := 1; i < len(ts); i++ {
			if isOpen(ts[i].tok) {
				d++
			} else if isClose(ts[i].tok) {
				d--
			} else if d == 0 && ts[i].tok == tCOLONCOLON {
				body, err := rewriteToks(ts[i+1:])
				if err != nil {
					return "", err
				}
				// bounded form (executable):  forall i in range(lo, hi) :: P
				if i >= 6 && ts[2].tok == token.IDENT && ts[2].lit == "in" && ts[3].tok == token.RANGE && ts[4].tok == token.LPAREN && ts[i-1].tok == token.RPAREN {
					inner := ts[5 : i-1]
					c := findTop(inner, token.COMMA, false)
					if c < 0 {
						return "", fmt.Errorf("range(lo, hi) expected in quantifier")
					}
					lo, err := rewriteToks(inner[:c])
					if err != nil {
						return "", err
					}
					hi, err := rewriteToks(inner[c+1:])
					if err != nil {
						return "", err
					}
					return fmt.Sprintf("verif_%sRange(%s, %s, func(%s int) bool { return %s })", ts[0].lit, lo, hi, ts[1].lit, body), nil
				}
				binders := joinToks(ts[1:i])
				return fmt.Sprintf("verif_%s(func(%s) bool { return %s })", ts[0].lit, binders, body), nil
			}
		}
		return "", fmt.Errorf("quantifier without '::'")
	}
	// top level <==> (weakest, left assoc is irrelevant)
	if i := findTop(ts, tIFF, false); i >= 0 {
		l, err := rewriteToks(ts[:i])
		if err != nil {
			return "", err
		}
		r, err := rewriteToks(ts[i+1:])
		if err != nil {
			return "", err
		}
		return fmt.Sprintf("verif_iff(%s, %s)", l, r), nil
	}
	if i := findTop(ts, tIMPL, false); i >= 0 {
		l, err := rewriteToks(ts[:i])
		if err != nil {
			return "", err
		}
		r, err := rewriteToks(ts[i+1:])
		if err != nil {
			return "", err
		}
		return fmt.Sprintf("verif_implies(%s, %s)", l, r), nil
	}
	// a quantifier may start after && or || at top level:  A && forall x :: P
	d := 0
	for i := 0; i < len(ts); i++ {
		if isOpen(ts[i].tok) {
			d++
		} else if isClose(ts[i].tok) {
			d--
		} else if d == 0 && i > 0 && ts[i].tok == token.IDENT && (ts[i].lit == "forall" || ts[i].lit == "exists") &&
			(ts[i-1].tok == token.LAND || ts[i-1].tok == token.LOR) {
			l, err := rewriteToks(ts[:i-1])
			if err != nil {
				return "", err
			}
			r, err := rewriteToks(ts[i:])
			if err != nil {
				return "", err
			}
			return fmt.Sprintf("(%s) %s %s", l, ts[i-1].lit, r), nil
		}
	}
	// no top-level sugar: recurse into groups
	var sb strings.Builder
	for i := 0; i < len(ts); i++ {
		t := ts[i]
		if isOpen(t.tok) {
			j := matchTok(ts, i)
			if j < 0 {
				return "", fmt.Errorf("unbalanced %s", t.lit)
			}
			sb.WriteString(t.lit)
			// split on top-level commas / semicolons
			start := i + 1
			dd := 0
			for k := i + 1; k <= j; k++ {
				if k < j && start < j && ts[start].tok == token.IDENT && (ts[start].lit == "forall" || ts[start].lit == "exists") {
					k = j // a quantifier extends to the end of its group
				}
				if k < j && isOpen(ts[k].tok) {
					dd++
				} else if k < j && isClose(ts[k].tok) {
					dd--
				}
				if k == j || (dd == 0 && (ts[k].tok == token.COMMA || ts[k].tok == token.SEMICOLON || ts[k].tok == token.COLON)) {
					part, err := rewriteToks(ts[start:k])
					if err != nil {
						return "", err
					}
					sb.WriteString(part)
					if k < j {
						sb.WriteString(ts[k].lit + " ")
					}
					start = k + 1
				}
			}
			sb.WriteString(ts[j].lit)
			i = j
			sb.WriteString(sep(ts, i))
			continue
		}
		lit := t.lit
		if t.tok == token.IDENT {
			if r, ok := identRename[lit]; ok && i+1 < len(ts) && (ts[i+1].tok == token.LPAREN || ts[i+1].tok == token.LBRACK) &&
				(i == 0 || ts[i-1].tok != token.PERIOD) {
				lit = r
			}
			if lit == "rangeidx" && (i == 0 || ts[i-1].tok != token.PERIOD) {
				lit = "verif_rangeidx"
			}
		}
		sb.WriteString(lit)
		sb.WriteString(sep(ts, i))
	}
	return strings.TrimSpace(sb.String()), nil
}

func sep(ts []tok, i int) string {
	if i+1 < len(ts) && ts[i+1].pos > ts[i].end {
		return " "
	}
	if i+1 < len(ts) {
		a, b := ts[i].tok, ts[i+1].tok
		if (a == token.IDENT || a.IsKeyword() || a.IsLiteral()) && (b == token.IDENT || b.IsKeyword() || b.IsLiteral()) {
			return " "
		}
	}
	return ""
}

func joinToks(ts []tok) string {
	var sb strings.Builder
	for i, t := range ts {
		sb.WriteString(t.lit)
		if i+1 < len(ts) {
			if ts[i+1].pos > t.end || sep(ts, i) == " " {
				sb.WriteString(" ")
			}
		}
	}
	return sb.String()
}

func findTop(ts []tok, want token.Token, last bool) int {
	d := 0
	res := -1
	for i, t := range ts {
		if isOpen(t.tok) {
			d++
		} else if isClose(t.tok) {
			d--
		} else if d == 0 && t.tok == want {
			if !last {
				return i
			}
			res = i
		}
	}
	return res
}

func matchTok(ts []tok, i int) int {
	d := 0
	for j := i; j < len(ts); j++ {
		if isOpen(ts[j].tok) {
			d++
		} else if isClose(ts[j].tok) {
			d--
			if d == 0 {
				return j
			}
		}
	}
	return -1
}

// rewriteSugarStmts rewrites a spec function's source: each `return EXPR` and each
// `if COND {` / `:= EXPR` is passed through the expression rewriter.
func rewriteSugarStmts(src string) (string, error) {
	ts, err := tokenize(src)
	if err != nil {
		return "", err
	}
	ts = mergeOps(ts)
	// find the function body: first '{' at depth 0 after the signature's closing paren
	var sb strings.Builder
	i := 0
	// emit header up to and including body '{'
	d := 0
	bodyStart := -1
	for k, t := range ts {
		if t.tok == token.LPAREN || t.tok == token.LBRACK {
			d++
		} else if t.tok == token.RPAREN || t.tok == token.RBRACK {
			d--
		} else if t.tok == token.LBRACE && d == 0 {
			// could be `struct{` or `interface{` in the signature
			if k > 0 && (ts[k-1].tok == token.STRUCT || ts[k-1].tok == token.INTERFACE) {
				continue
			}
			bodyStart = k
			break
		}
	}
	if bodyStart < 0 {
		// bodiless declaration: an uninterpreted spec function
		var t2 []tok
		for _, t := range ts {
			if t.tok != token.SEMICOLON {
				t2 = append(t2, t)
			}
		}
		return joinToks(t2), nil
	}
	sb.WriteString(joinToks(ts[:bodyStart+1]))
	sb.WriteString("\n")
	i = bodyStart + 1
	// statements: split by ; or newline-semicolons and braces
	for i < len(ts) {
		t := ts[i]
		switch {
		case t.tok == token.SEMICOLON:
			sb.WriteString("\n")
			i++
		case t.tok == token.RBRACE:
			sb.WriteString("}")
			i++
			if i < len(ts) && ts[i].tok == token.ELSE {
				sb.WriteString(" else ")
				i++
				if i < len(ts) && ts[i].tok == token.LBRACE {
					sb.WriteString("{\n")
					i++
				}
			} else {
				sb.WriteString("\n")
			}
		case t.tok == token.RETURN:
			j := stmtEnd(ts, i+1)
			e, err := rewriteToks(ts[i+1 : j])
			if err != nil {
				return "", err
			}
			sb.WriteString("return " + e + "\n")
			i = j
		case t.tok == token.IF || t.tok == token.SWITCH:
			// condition up to the '{' at depth 0
			j := i + 1
			dd := 0
			for ; j < len(ts); j++ {
				if ts[j].tok == token.LPAREN || ts[j].tok == token.LBRACK {
					dd++
				} else if ts[j].tok == token.RPAREN || ts[j].tok == token.RBRACK {
					dd--
				} else if ts[j].tok == token.LBRACE && dd == 0 {
					break
				}
			}
			var e string
			if t.tok == token.SWITCH {
				e = joinToks(ts[i+1 : j])
			} else {
				var err error
				e, err = rewriteToks(ts[i+1 : j])
				if err != nil {
					return "", err
				}
			}
			sb.WriteString(t.lit + " " + e + " {\n")
			i = j + 1
		case t.tok == token.CASE || t.tok == token.DEFAULT:
			j := i + 1
			for ; j < len(ts) && ts[j].tok != token.COLON; j++ {
			}
			sb.WriteString(joinToks(ts[i:j+1]) + "\n")
			i = j + 1
		default:
			// simple statement  x := EXPR  /  var ...
			j := stmtEnd(ts, i)
			k := -1
			for q := i; q < j; q++ {
				if ts[q].tok == token.DEFINE || ts[q].tok == token.ASSIGN {
					k = q
					break
				}
			}
			if k >= 0 {
				e, err := rewriteToks(ts[k+1 : j])
				if err != nil {
					return "", err
				}
				sb.WriteString(joinToks(ts[i:k+1]) + " " + e + "\n")
			} else {
				sb.WriteString(joinToks(ts[i:j]) + "\n")
			}
			i = j
		}
	}
	return sb.String(), nil
}

// stmtEnd returns the index of the token ending the simple statement starting at i
// (a ';' at depth 0, or a '}' closing the enclosing block).
func stmtEnd(ts []tok, i int) int {
	d := 0
	for j := i; j < len(ts); j++ {
		if isOpen(ts[j].tok) {
			d++
		} else if isClose(ts[j].tok) {
			if d == 0 {
				return j
			}
			d--
		} else if d == 0 && ts[j].tok == token.SEMICOLON {
			return j
		}
	}
	return len(ts)
}
