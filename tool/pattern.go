package main

import "strings"

// withPattern attaches an instantiation pattern to the body of a bounded quantifier over index
// variable v: the first array read `(select A I)` whose index I mentions v while A does not. Element
// reads are what the surrounding code produces ground instances of, so this keeps instantiation
// goal-directed; without a usable read the solver chooses by itself.
func withPattern(body Term, v string) Term {
	ss := parseSexps(body)
	if len(ss) != 1 {
		return body
	}
	var found *Sexp
	var walk func(s *Sexp)
	walk = func(s *Sexp) {
		if found != nil || s.isAtom() {
			return
		}
		if len(s.List) == 3 && s.List[0].Atom == "select" && mentions(s.List[2], v) && !mentions(s.List[1], v) && !hasBinder(s) {
			found = s
			return
		}
		for _, c := range s.List {
			walk(c)
		}
	}
	walk(ss[0])
	if found == nil {
		return body
	}
	p := found.String()
	if strings.Contains(p, "ite ") || strings.Contains(p, "(or ") || strings.Contains(p, "(and ") {
		return body // not a legal pattern
	}
	return "(! " + body + " :pattern (" + p + "))"
}

func mentions(s *Sexp, v string) bool {
	if s.isAtom() {
		return s.Atom == v
	}
	for _, c := range s.List {
		if mentions(c, v) {
			return true
		}
	}
	return false
}

func hasBinder(s *Sexp) bool {
	if s.isAtom() {
		return s.Atom == "forall" || s.Atom == "exists" || s.Atom == "let"
	}
	for _, c := range s.List {
		if hasBinder(c) {
			return true
		}
	}
	return false
}
