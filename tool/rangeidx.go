package main

import (
	"go/token"

	"golang.org/x/tools/go/ssa"
)

// rangeIndexInc returns the header instruction  k1 = k + 1  of a `for range` loop over a
// slice/array/int (nil if the loop does not have that shape).
func (vc *VC) rangeIndexInc(li *LoopInfo) *ssa.BinOp {
	for _, in := range li.header.Instrs {
		phi, ok := in.(*ssa.Phi)
		if !ok {
			break
		}
		if _, ok := vc.rangeIndexBound(li, phi); ok {
			for _, in2 := range li.header.Instrs {
				if b, ok := in2.(*ssa.BinOp); ok && b.Op == token.ADD && b.X == phi {
					return b
				}
			}
		}
	}
	return nil
}
