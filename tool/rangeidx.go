package main

import (
	"go/token"

	"golang.org/x/tools/go/ssa"
)

// rangeIndexInc returns the header instruction  k1 = k + 1  of a `for range` loop over a
// slice/array/int (nil if the loop does not have that shape).
func (vc *VC) rangeIndexInc(li *LoopInfo) ssa.Value {
	if v := vc.rangeIntIndex(li); v != nil {
		return v
	}
	if b := vc.rangeSliceIndexInc(li); b != nil {
		return b
	}
	return nil
}

// rangeIntIndex recognises the shape go/ssa emits for `for i := range n` over an integer:
//   header:  k = phi [0 (entry), k1 (back edge)]; if k < n goto body else done      post:  k1 = k + 1
// The index the next iteration looks at is k itself.
func (vc *VC) rangeIntIndex(li *LoopInfo) ssa.Value {
	// `for i := range n` over an integer is emitted rotated: the header is the body block,
	//   k = phi [0 (entry, guarded by 0 < n), k1 (back edge)] #rangeint.iter;  ...;  k1 = k + 1;  if k1 < n goto header
	// The index the iteration at the marker looks at is k itself.
	for _, in := range li.header.Instrs {
		phi, ok := in.(*ssa.Phi)
		if !ok {
			break
		}
		if phi.Comment != "rangeint.iter" {
			continue
		}
		okShape := true
		for i, p := range li.header.Preds {
			e := phi.Edges[i]
			if vc.isBackEdge(p, li.header) {
				inc, ok := e.(*ssa.BinOp)
				if !ok || inc.Op != token.ADD || inc.X != ssa.Value(phi) {
					okShape = false
				} else if c, ok := inc.Y.(*ssa.Const); !ok || c.Value == nil || c.Int64() != 1 {
					okShape = false
				}
			} else if c, ok := e.(*ssa.Const); !ok || c.Value == nil || c.Int64() != 0 {
				okShape = false
			}
		}
		if okShape {
			return phi
		}
	}
	return nil
}

func (vc *VC) rangeSliceIndexInc(li *LoopInfo) *ssa.BinOp {
	for _, in := range li.header.Instrs {
		phi, ok := in.(*ssa.Phi)
		if !ok {
			break
		}
		if _, ok := vc.rangeIndexBound(li, phi); ok {
			for _, in2 := range li.header.Instrs {
				if b, ok := in2.(*ssa.BinOp); ok && b.Op == token.ADD && b.X == phi {
					return b
				}
			}
		}
	}
	return nil
}
