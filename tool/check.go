package main

import (
	"crypto/sha1"
	"encoding/json"
	"fmt"
	"os"
	"path/filepath"
	"sort"
	"strconv"
	"strings"
	"time"
)

type Finding struct {
	Kind      string `json:"kind"` // known | fixed
	Property  string `json:"property"`
	Function  string `json:"function,omitempty"`
	Class     string `json:"class,omitempty"`
	Construct string `json:"construct,omitempty"`
	Input     string `json:"input,omitempty"`
	Why       string `json:"why,omitempty"`
	Commit    string `json:"commit,omitempty"`
	What      string `json:"what,omitempty"`
}

func loadFindings() []Finding {
	var out []Finding
	b, err := os.ReadFile(filepath.Join(verifDir, "known_findings.jsonl"))
	if err != nil {
		return nil
	}
	for _, l := range strings.Split(string(b), "\n") {
		l = strings.TrimSpace(l)
		if l == "" || strings.HasPrefix(l, "#") {
			continue
		}
		var f Finding
		if json.Unmarshal([]byte(l), &f) == nil {
			out = append(out, f)
		}
	}
	return out
}

func classBase(c string) string {
	if i := strings.Index(c, "#"); i >= 0 {
		c = c[:i]
	}
	return c
}

func (f *Finding) matches(prop string, r *Result) bool {
	// a listed finding is identified by function, obligation class and construct; it is the same finding when the
	// function is re-verified as a callee in the run of another property (it is then reported under its own property)
	if f.Kind != "known" {
		return false
	}
	return f.Function == r.Func && f.Class == r.Class && strings.TrimSpace(f.Construct) == strings.TrimSpace(r.Construct)
}

type propTargets struct {
	pkgDirs []string
}

// scanProps reads all contract files and returns the package dirs (relative) that carry prop.
func scanProps(prop string) ([]string, error) {
	files, err := findContractFiles()
	if err != nil {
		return nil, err
	}
	var dirs []string
	for _, f := range files {
		pc, err := parseContractFile(f)
		if err != nil {
			return nil, err
		}
		has := false
		for _, fc := range pc.Funcs {
			for _, p := range fc.Props {
				if p == prop {
					has = true
				}
			}
		}
		for _, l := range pc.Lemmas {
			for _, p := range l.Props {
				if p == prop {
					has = true
				}
			}
		}
		for _, t := range pc.Tables {
			if hasProp(t.Props, prop) {
				has = true
			}
		}
		if has {
			rel, _ := filepath.Rel(repoDir, pc.Dir)
			dirs = append(dirs, rel)
		}
	}
	return dirs, nil
}

func hasProp(ps []string, p string) bool {
	for _, x := range ps {
		if x == p {
			return true
		}
	}
	return false
}

type Evidence struct {
	PropertyID  string                 `json:"property_id"`
	Tier        string                 `json:"tier"`
	Seed        int                    `json:"seed"`
	Level       string                 `json:"level"`
	Coverage    map[string]interface{} `json:"coverage"`
	Assumptions []string               `json:"assumptions"`
	WallS       float64                `json:"wall_s"`
	Violations  int                    `json:"violations"`
}

// crashProp: the property that is the union of the panic-freedom obligations of every function under contract.
const crashProp = "C10"

func checkCmd(args []string) {
	if len(args) < 2 {
		fmt.Fprintln(os.Stderr, "usage: gvc check <property> quick|thorough")
		os.Exit(2)
	}
	prop, tier := args[0], args[1]
	t0 := time.Now()
	// watchdog: a check never hangs. If the whole run exceeds its budget (45 min quick, 4 h thorough) it stops
	// with exit status 2 ("the check did not finish": neither "held" nor "violated").
	budget := 45 * time.Minute
	if tier == "thorough" {
		budget = 4 * time.Hour
	}
	time.AfterFunc(budget, func() {
		fmt.Printf("gvc: check %s %s did not finish within %s; aborted (exit 2: no verdict)\n", prop, tier, budget)
		os.Exit(2)
	})
	seed, _ := strconv.Atoi(os.Getenv("VERIF_SEED"))
	sec := 10
	if tier == "thorough" {
		sec = 60
	}
	if s := os.Getenv("GVC_TIMEOUT"); s != "" {
		sec, _ = strconv.Atoi(s)
	}
	evPath := filepath.Join(verifDir, "evidence", prop+".json")
	if d := os.Getenv("GVC_EVIDENCE_DIR"); d != "" {
		evPath = filepath.Join(d, prop+".json") // self-test runs against a scratch copy must not touch the real evidence
	}
	os.MkdirAll(filepath.Dir(evPath), 0755)
	os.Remove(evPath)

	fatal := func(msg string) {
		// a check that cannot run is a broken check, not a violation
		fmt.Fprintln(os.Stderr, "gvc: "+msg)
		os.Exit(2)
	}
	dirs, err := scanProps(prop)
	if err != nil {
		fatal(err.Error())
	}
	if len(dirs) == 0 {
		fatal("no contracts carry property " + prop)
	}
	P, err := loadProgram(dirs)
	if err != nil {
		// a contract that no longer type-checks against the code, or code that no longer loads
		if P == nil {
			fatal("load: " + err.Error())
		}
		fatal("load: " + err.Error())
	}
	// work list
	var keys []string
	for k := range P.funcs {
		keys = append(keys, k)
	}
	sort.Strings(keys)
	todo := []*FuncInfo{}
	seen := map[*FuncInfo]bool{}
	for _, k := range keys {
		fi := P.funcs[k]
		if hasProp(fi.fc.Props, prop) {
			todo = append(todo, fi)
			seen[fi] = true
		}
	}
	var all []*Result
	usedLemmas := map[string]bool{}
	var funcsUnder []string
	var trustedFns []string
	assumptions := map[string]bool{}
	var vcs []*VC
	type skipped struct{ name, why string }
	var unsupp []skipped
	for i := 0; i < len(todo); i++ {
		fi := todo[i]
		if fi.missing != "" {
			all = append(all, &Result{Name: fi.pkg.Types.Name() + "." + fi.fc.Key + "#target-exists", Class: "target-exists",
				Func: fi.pkg.Types.Name() + "." + fi.fc.Key, Status: "error", Output: fi.missing, Construct: fi.fc.Key})
			continue
		}
		if fi.fc.Trusted || fi.fn == nil {
			if fi.fc.Trusted {
				trustedFns = append(trustedFns, fi.qname())
				assumptions["trusted contract (body not verified): "+fi.qname()] = true
			}
			if fi.fc.IsIface && !fi.fc.Trusted {
				// every implementation in the loaded packages must be under contract
				for _, impl := range P.implsOf(fi) {
					if !seen[impl] {
						seen[impl] = true
						todo = append(todo, impl)
					}
				}
			}
			continue
		}
		vc, rs, errText := verifyFunc(P, fi, fi.fn)
		if errText != "" {
			unsupp = append(unsupp, skipped{fi.qname(), errText})
			all = append(all, &Result{Name: fi.qname() + "#translate", Class: "translate", Func: fi.qname(), Status: "error", Output: errText, Construct: fi.fc.Key})
			continue
		}
		funcsUnder = append(funcsUnder, fi.qname())
		for _, u := range fi.fc.Uses {
			usedLemmas[fi.pkg.PkgPath+"."+u] = true // a lemma a function relies on is proved in the same run
		}
		vcs = append(vcs, vc)
		for a := range vc.assumed {
			assumptions[a] = true
		}
		if prop == crashProp {
			// "no input crashes the engine": the obligations that stand for a run-time panic or a hang, plus what
			// they rest on inside the same function (call preconditions, loop invariants). Postconditions and
			// frames are discharged under the properties their contracts name and are only assumed here.
			var keep []*Result
			for _, r := range rs {
				if strings.HasPrefix(r.Class, "safe:") || r.Class == "call-pre" || strings.HasPrefix(r.Class, "invariant-") || r.Class == "decreases" {
					keep = append(keep, r)
				}
			}
			rs = keep
			assumptions["postconditions and frames of the functions listed here are assumed in this check; they are discharged under the properties named in their contracts"] = true
		}
		all = append(all, rs...)
		all = append(all, vc.coverQuery())
		for callee := range vc.usedCallees {
			if !seen[callee] {
				seen[callee] = true
				todo = append(todo, callee)
			}
		}
	}
	for _, pr := range P.checkClosed() {
		all = append(all, &Result{Name: "closed-world: " + pr, Class: "closed-world", Func: "closed-world", Status: "error", Output: pr, Construct: pr})
	}
	// lemmas
	for ip, pc := range P.pcs {
		pkg := P.pkgs[ip]
		if pkg == nil {
			continue
		}
		for _, l := range pc.Lemmas {
			if (!hasProp(l.Props, prop) || prop == crashProp) && !usedLemmas[ip+"."+l.Name] {
				continue
			}
			r, as := P.lemmaObligation(pkg, pc, l)
			for _, a := range as {
				assumptions[a] = true
			}
			if r != nil {
				all = append(all, r)
			}
		}
	}
	// table invariants (exhaustive concrete evaluation of the spec function on every instance)
	var tables []*TableResult
	for ip, pc := range P.pcs {
		for _, t := range pc.Tables {
			if !hasProp(t.Props, prop) {
				continue
			}
			tr := P.checkTable(ip, pc, t)
			tables = append(tables, tr)
			name := fmt.Sprintf("%s.table.%s", P.pkgs[ip].Types.Name(), t.Spec)
			switch {
			case tr.Err != "":
				all = append(all, &Result{Name: name, Class: "table-invariant", Func: name, Status: "error", Output: tr.Err, Construct: t.Spec + " over " + t.Type})
			case tr.Instances == 0:
				all = append(all, &Result{Name: name, Class: "table-invariant", Func: name, Status: "error", Output: "no instance of " + t.Type + " found (vacuous)", Construct: t.Spec + " over " + t.Type})
			case len(tr.Failing) > 0:
				all = append(all, &Result{Name: name, Class: "table-invariant", Func: name, Status: "error", Output: "invariant false on: " + strings.Join(tr.Failing, ", "), Construct: t.Spec + " over " + t.Type})
			case strings.HasPrefix(tr.ClosedWorld, "VIOLATED"):
				all = append(all, &Result{Name: name + "#closed-world", Class: "table-invariant", Func: name, Status: "error", Output: tr.ClosedWorld, Construct: t.Spec + " over " + t.Type})
			}
			assumptions[fmt.Sprintf("table invariant %s holds on every %s: checked by exhaustive evaluation on %d instances (compiled spec function, not SMT)", t.Spec, t.Type, tr.Instances)] = true
		}
	}
	var solve []*Result
	for _, r := range all {
		if r.Script != "" {
			solve = append(solve, r)
		}
	}
	solveAll(solve, sec, tier == "thorough", 8) // two racing solver processes per obligation: 16 cores

	findings := loadFindings()
	nObl, nDis, nTwo := 0, 0, 0
	bySolver := map[string]int{}
	var solverMs int64
	var samples []map[string]interface{}
	violations := 0
	var knownMatched []string
	replayDir := filepath.Join(verifDir, "out", "replay", prop)
	if d := os.Getenv("GVC_EVIDENCE_DIR"); d != "" {
		replayDir = filepath.Join(d, "replay", prop)
	}
	vacuous := 0
	for _, r := range all {
		if r.Class == "cover" {
			// vacuity guard: expected sat (or unknown); unsat means the contract's assumptions are contradictory
			solverMs += r.Ms
			if r.Status == "unsat" {
				vacuous++
				violations++
				path := writeReplay(replayDir, prop, r, "vacuity: the precondition, invariants and assumed callee contracts of this function are contradictory; every obligation would pass", "")
				fmt.Printf("VIOLATION property=%s replay=%s no-failing-input-found\n", prop, path)
			}
			continue
		}
		nObl++
		solverMs += r.Ms
		if r.Status == "unsat" {
			nDis++
			bySolver[r.Solver]++
			if r.Second != "" {
				nTwo++
			}
			if len(samples) < 12 {
				samples = append(samples, map[string]interface{}{"obligation": r.Name, "solver": r.Solver, "ms": r.Ms, "at": r.Pos, "construct": r.Construct})
			}
			continue
		}
		matched := false
		for i := range findings {
			if findings[i].matches(prop, r) {
				matched = true
				msg := fmt.Sprintf("%s %s %q: %s", r.Func, r.Class, r.Construct, findings[i].Why)
				fmt.Printf("KNOWN-FINDING: property=%s %s\n", findings[i].Property, msg)
				knownMatched = append(knownMatched, r.Name)
				break
			}
		}
		if matched {
			nObl-- // not counted: a listed finding is neither discharged nor a new alarm
			continue
		}
		violations++
		shrinkModel(r)
		note, suffix := replayResult(P, r)
		path := writeReplay(replayDir, prop, r, note, suffix)
		if suffix != "" {
			fmt.Printf("VIOLATION property=%s replay=%s %s\n", prop, path, suffix)
		} else {
			fmt.Printf("VIOLATION property=%s replay=%s\n", prop, path)
		}
		fmt.Printf("  obligation %s [%s] at %s: %s\n", r.Name, r.Status, r.Pos, r.Construct)
	}
	var as []string
	for a := range assumptions {
		as = append(as, a)
	}
	as = append(as,
		"integers: SMT Int with explicit two's-complement wrap-around per Go width (not machine bit-vectors); bit operations other than shifts/masks by constants are uninterpreted",
		"floating point, apd.Decimal and time.Time are uninterpreted",
		"no object exceeds 2^48 bytes/elements (runtime maxAlloc); lengths and capacities are bounded by it",
		"termination is proved only for loops that carry a `decreases` clause; allocation never fails",
		"the SRID table file emptied at the pin is replaced by a stub (overlay) so that sql/types type-checks")
	sort.Strings(as)
	sort.Strings(funcsUnder)
	cov := map[string]interface{}{
		"obligations":              nObl,
		"discharged":               nDis,
		"checker_cmd":              fmt.Sprintf("/verif/bin/gvc check %s %s  (SSA -> weakest-precondition VCs -> z3 5.1.0 / cvc5 1.0 / z3 4.8.12, %ds per solver)", prop, tier, sec),
		"trusted_base":             []string{"go/types + go/ssa (golang.org/x/tools v0.45.0)", "gvc translation and memory model (/verif/tool)", "z3 5.1.0, cvc5 1.0.3, z3 4.8.12", "assumed contracts of external functions listed under assumptions"},
		"functions_under_contract": funcsUnder,
		"trusted_functions":        trustedFns,
		"by_solver":                bySolver,
		"solver_time_s":            float64(solverMs) / 1000,
		"samples":                  samples,
		"known_findings_matched":   knownMatched,
		"vacuity":                  map[string]interface{}{"cover_queries": len(vcs), "contradictory": vacuous},
		"two_solver_agreement":     fmt.Sprintf("%d of %d discharged obligations were proved independently by two solvers (asked for in the thorough tier only, %ds grace for the second solver; one sound unsat discharges an obligation, a contradicting sat is reported as a solver disagreement)", nTwo, nDis, graceSec),
		"two_solver_confirmed":     nTwo,
		"marker_strip_identical":   P.markerOK,
		"table_invariants":         tables,
	}
	ev := Evidence{PropertyID: prop, Tier: tier, Seed: seed, Level: "proof", Coverage: cov, Assumptions: as,
		WallS: time.Since(t0).Seconds(), Violations: violations}
	b, _ := json.MarshalIndent(ev, "", " ")
	os.WriteFile(evPath, b, 0644)
	fmt.Printf("%s %s: %d obligations, %d discharged, %d known findings, %d violations, %.1fs\n", prop, tier, nObl, nDis, len(knownMatched), violations, time.Since(t0).Seconds())
	if violations > 0 {
		os.Exit(1)
	}
	if nObl == 0 {
		fatal("zero obligations generated (vacuous check)")
	}
}

func writeReplay(dir, prop string, r *Result, note, suffix string) string {
	os.MkdirAll(dir, 0755)
	h := sha1.Sum([]byte(r.Name))
	path := filepath.Join(dir, fmt.Sprintf("%x.json", h[:6]))
	m := map[string]interface{}{
		"property":   prop,
		"obligation": r.Name,
		"class":      r.Class,
		"function":   r.Func,
		"at":         r.Pos,
		"construct":  r.Construct,
		"status":     r.Status,
		"solver":     r.Solver,
		"note":       note,
		"solver_output": func() string {
			if r.Status == "sat" {
				return firstLines(r.Model, 400)
			}
			return r.Output
		}(),
		"replay": r.Replay,
	}
	b, _ := json.MarshalIndent(m, "", " ")
	os.WriteFile(path, b, 0644)
	return path
}

// coverQuery: is any return (or declared panic) of the function reachable under all assumptions?
func (vc *VC) coverQuery() *Result {
	head := vc.scriptHead()
	var pre strings.Builder
	for _, ev := range vc.events {
		if ev.Oblig {
			continue
		}
		if ev.Guard == "true" || ev.Guard == "" {
			fmt.Fprintf(&pre, "(assert %s)\n", ev.Cond)
		} else {
			fmt.Fprintf(&pre, "(assert (=> %s %s))\n", ev.Guard, ev.Cond)
		}
	}
	var exits []Term
	for _, b := range vc.fn.Blocks {
		if r, ok := vc.reach[b]; ok && len(b.Succs) == 0 {
			exits = append(exits, r)
		}
	}
	fname := vc.fn.String()
	if vc.fi != nil {
		fname = vc.fi.qname()
	}
	script := head + pre.String() + fmt.Sprintf("(assert %s)\n(check-sat)\n", or(exits...))
	return &Result{Name: fname + "#cover", Class: "cover", Func: fname, Script: script, vc: vc}
}
