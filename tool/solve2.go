package main

import (
	"bytes"
	"context"
	"fmt"
	"os"
	"os/exec"
	"path/filepath"
	"strings"
	"time"
)

type solverAnswer struct {
	name   string
	status string
	out    string
	ms     int64
}

// runSolverCtx is runSolver with an external context (used to cancel the loser of a race).
func runSolverCtx(ctx context.Context, sp solverSpec, file string, sec int) solverAnswer {
	cctx, cancel := context.WithTimeout(ctx, time.Duration(sec+2)*time.Second)
	defer cancel()
	a := sp.args(file, sec)
	cmd := exec.CommandContext(cctx, a[0], a[1:]...)
	var buf bytes.Buffer
	cmd.Stdout = &buf
	cmd.Stderr = &buf
	t0 := time.Now()
	cmd.Run()
	ans := solverAnswer{name: sp.name, ms: time.Since(t0).Milliseconds(), out: buf.String()}
	first := strings.TrimSpace(strings.SplitN(ans.out, "\n", 2)[0])
	switch first {
	case "unsat", "sat", "unknown":
		ans.status = first
	default:
		if strings.Contains(ans.out, "timeout") || cctx.Err() != nil {
			ans.status = "unknown"
		} else {
			ans.status = "error"
		}
	}
	return ans
}

// race runs the solvers concurrently on the same file. all=false: returns as soon as one gives a
// definitive answer (the others are cancelled); all=true: after the first definitive answer the
// other solvers get a grace period of graceSec seconds to confirm or contradict it.
const graceSec = 15

func race(sps []solverSpec, file string, sec int, all bool) []solverAnswer {
	ctx, cancel := context.WithCancel(context.Background())
	defer cancel()
	ch := make(chan solverAnswer, len(sps))
	for _, sp := range sps {
		sp := sp
		go func() { ch <- runSolverCtx(ctx, sp, file, sec) }()
	}
	var out []solverAnswer
	var grace <-chan time.Time
	for len(out) < len(sps) {
		select {
		case a := <-ch:
			out = append(out, a)
			if a.status == "unsat" || a.status == "sat" {
				if !all {
					cancel()
					return out
				}
				if grace == nil {
					grace = time.After(graceSec * time.Second)
				}
			}
		case <-grace:
			cancel()
			return out
		}
	}
	return out
}

func solveOne(r *Result, dir string, i int, sec int, two bool) {
	if r.Timeout > sec {
		sec = r.Timeout
	}
	file := filepath.Join(dir, fmt.Sprintf("o%d.smt2", i))
	os.WriteFile(file, []byte(r.Script), 0644)
	defer os.Remove(file)
	r.Status = "unknown"
	if r.Class == "cover" {
		// vacuity guard: only "unsat" (contradictory assumptions) matters; short budget
		st, _, ms := runSolver(solvers[0], file, 3)
		r.Status, r.Solver, r.Ms = st, solvers[0].name, ms
		return
	}
	t0 := time.Now()
	defer func() { r.Ms = time.Since(t0).Milliseconds() }()
	var unsatBy []string
	var satAns *solverAnswer
	note := func(a solverAnswer) {
		switch a.status {
		case "unsat":
			unsatBy = append(unsatBy, a.name)
		case "sat":
			if satAns == nil {
				c := a
				satAns = &c
			}
		default:
			r.Output += fmt.Sprintf("[%s] %s\n", a.name, firstLines(a.out, 3))
		}
	}
	// 1. z3 5.x and cvc5 race on the full query
	for _, a := range race([]solverSpec{solvers[0], solvers[1]}, file, sec, two) {
		note(a)
	}
	// One sound "unsat" discharges an obligation. two=true (thorough tier) additionally asks the other
	// solver for confirmation (recorded as second_solver, counted in the evidence); an unconfirmed
	// proof stays a proof, a contradicting "sat" is a solver disagreement and is reported.
	const need = 1
	var candidate *solverAnswer
	// 2. relaxation without quantified assumptions (sound for unsat; sat is only a candidate)
	if len(unsatBy) < need && satAns == nil && r.ScriptQF != "" {
		fileQ := filepath.Join(dir, fmt.Sprintf("o%d.qf.smt2", i))
		os.WriteFile(fileQ, []byte(r.ScriptQF), 0644)
		a := runSolverCtx(context.Background(), solvers[0], fileQ, sec)
		os.Remove(fileQ)
		a.name += "/qf"
		if a.status == "unsat" {
			unsatBy = append(unsatBy, a.name)
		} else if a.status == "sat" {
			candidate = &a
		}
	}
	// 3. z3 4.8 on the full query
	if len(unsatBy) < need && satAns == nil {
		note(runSolverCtx(context.Background(), solvers[2], file, sec))
	}
	// 4. second chance: an obligation nobody decided is tried again by z3 5.x under two other random seeds
	// (a proof that depends on a lucky heuristic choice would otherwise make the check flaky under load);
	// any "unsat" is a proof, whatever the seed
	if len(unsatBy) < need && satAns == nil {
		for _, seed := range []int{7, 23} {
			sd := seed
			sp := solverSpec{fmt.Sprintf("z3-new/seed%d", sd), func(f string, s int) []string {
				return []string{"z3-new", fmt.Sprintf("-T:%d", s), fmt.Sprintf("smt.random_seed=%d", sd), fmt.Sprintf("sat.random_seed=%d", sd), f}
			}}
			a := runSolverCtx(context.Background(), sp, file, sec)
			if a.status == "unsat" {
				unsatBy = append(unsatBy, a.name)
				break
			}
		}
	}
	switch {
	case satAns != nil && len(unsatBy) > 0:
		r.Status = "error"
		r.Output += fmt.Sprintf("solver disagreement: %v unsat, %s sat\n", unsatBy, satAns.name)
	case satAns != nil:
		r.Status, r.Solver, r.Model = "sat", satAns.name, satAns.out
	case len(unsatBy) >= need:
		r.Status, r.Solver = "unsat", unsatBy[0]
		if len(unsatBy) > 1 {
			r.Second = unsatBy[1]
		}
	case len(unsatBy) > 0:
		r.Status = "unknown"
		r.Solver = unsatBy[0]
		r.Output += "no second solver confirmed unsat\n"
	case candidate != nil:
		r.Status, r.Solver, r.Model, r.Candidate = "sat", candidate.name, candidate.out, true
		r.Output += "model from the relaxation without quantified assumptions (a candidate; trusted only if it replays)\n"
	}
}
