package main

import (
	"go/token"
	"go/types"
)

// overflowCheck: in a function annotated `nooverflow`, the mathematical result e of an integer
// operation must be representable in its Go type t (otherwise Go would wrap it silently).
func (vc *VC) overflowCheck(t types.Type, e Term, guard Term, emit bool, pos token.Pos) {
	if !emit || vc.fi == nil || !vc.fi.fc.NoOverflow {
		return
	}
	vc.oblige("overflow", "", guard, inRange(t, e), pos, vc.construct(pos))
}
