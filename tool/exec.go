package main

import (
	"fmt"
	"go/constant"
	"go/token"
	"go/types"
	"math/big"
	"strings"

	"golang.org/x/tools/go/ssa"
)

type getter func(ssa.Value) Val

func (vc *VC) isBackEdge(from, to *ssa.BasicBlock) bool {
	return to.Dominates(from)
}

func (vc *VC) rpo() []*ssa.BasicBlock {
	seen := map[*ssa.BasicBlock]bool{}
	var post []*ssa.BasicBlock
	var dfs func(b *ssa.BasicBlock)
	dfs = func(b *ssa.BasicBlock) {
		seen[b] = true
		for _, s := range b.Succs {
			if !seen[s] && !vc.isBackEdge(b, s) {
				dfs(s)
			}
		}
		post = append(post, b)
	}
	dfs(vc.fn.Blocks[0])
	for i, j := 0, len(post)-1; i < j; i, j = i+1, j-1 {
		post[i], post[j] = post[j], post[i]
	}
	return post
}

func (vc *VC) edgeCond(from, to *ssa.BasicBlock) Term {
	if t, ok := vc.edge[[2]int{from.Index, to.Index}]; ok {
		return t
	}
	return "false"
}

// val returns the translation of an SSA value in normal execution.
func (vc *VC) val(v ssa.Value) Val {
	if x, ok := vc.vals[v]; ok {
		return x
	}
	switch c := v.(type) {
	case *ssa.Const:
		return vc.constVal(c)
	case *ssa.Global:
		return Val{lv: &LVal{kind: lvGlobal, typ: c.Type().(*types.Pointer).Elem(), global: c, nonnil: true}, typ: c.Type()}
	case *ssa.Function:
		id := vc.declare(sym("fn_"+c.String()), "Int")
		return Val{t: id, typ: c.Type()}
	case *ssa.Builtin:
		return Val{t: "0", typ: c.Type()}
	}
	vc.fail("value %s (%T) used before definition", v.Name(), v)
	return Val{}
}

func (vc *VC) constVal(c *ssa.Const) Val {
	t := c.Type()
	if c.Value == nil {
		return Val{t: vc.S.zero(t), typ: t}
	}
	switch u := t.Underlying().(type) {
	case *types.Basic:
		switch {
		case u.Info()&types.IsInteger != 0:
			bi, ok := constant.Val(constant.ToInt(c.Value)).(*big.Int)
			if !ok {
				i64, _ := constant.Int64Val(constant.ToInt(c.Value))
				return Val{t: num(i64), typ: t}
			}
			return Val{t: bigNum(bi), typ: t}
		case u.Info()&types.IsBoolean != 0:
			if constant.BoolVal(c.Value) {
				return Val{t: "true", typ: t}
			}
			return Val{t: "false", typ: t}
		case u.Info()&types.IsString != 0:
			return Val{t: vc.strConstTerm(constant.StringVal(c.Value)), typ: t}
		case u.Info()&types.IsFloat != 0:
			return Val{t: vc.floatConst(c.Value.ExactString()), typ: t}
		}
	}
	vc.fail("constant of type %s", t)
	return Val{}
}

func (vc *VC) floatConst(s string) Term {
	vc.S.useF64 = true
	if s == "0" {
		return vc.declare("f64.zero", "F64")
	}
	return vc.declare(sym("f64c_"+s), "F64")
}

func (vc *VC) strConstTerm(s string) Term {
	if t, ok := vc.strConst[s]; ok {
		return t
	}
	name := vc.freshName("str")
	vc.declare(name, "Str")
	vc.strConst[s] = name
	var fs []Term
	fs = append(fs, eq(strLen(name), num(int64(len(s)))), app("<=", "0", app("st.off", name)))
	n := len(s)
	if n > 64 {
		n = 64
	}
	for i := 0; i < n; i++ {
		fs = append(fs, eq(strAt(name, num(int64(i))), num(int64(s[i]))))
	}
	vc.addAssume("true", and(fs...))
	return name
}

// ---------------------------------------------------------------------------

func (vc *VC) run() {
	fn := vc.fn
	vc.findLoops()
	order := vc.rpo()
	entry := &State{heaps: map[string]Term{}}
	vc.allocGet(entry)
	vc.addAssume("true", app("<", "0", vc.allocGet(entry)))
	// parameters
	for _, p := range fn.Params {
		v := vc.freshTyped(entry, "p_"+p.Name(), p.Type(), "true")
		vc.vals[p] = v
		vc.params[p.Name()] = v
	}
	for _, fv := range fn.FreeVars {
		v := vc.freshTyped(entry, "fv_"+fv.Name(), fv.Type(), "true")
		vc.vals[fv] = v
		vc.nonnil[fv] = true
		if _, ok := fv.Type().Underlying().(*types.Pointer); ok && v.t != "" {
			// a captured variable is a cell allocated by the enclosing function: never nil
			vc.addAssume("true", app("<", "0", v.t))
		}
	}
	if vc.fi != nil && fn.Signature.Recv() != nil && len(fn.Params) > 0 {
		// receiver alias "self" when unnamed
		vc.params[vc.fi.params[0]] = vc.vals[fn.Params[0]]
	}
	vc.initPanicMode(entry)
	vc.atomicInit(entry)
	vc.ghostInit(entry)
	vc.entry = entry.clone()
	// preconditions
	if vc.fi != nil {
		if pc := vc.P.pcs[vc.fi.pkg.PkgPath]; pc != nil && !vc.fi.fc.NoAxioms {
			vc.addAxioms(vc.fi.pkg, pc)
		}
		for _, cl := range vc.fi.fc.Requires {
			t := vc.clauseTerm(vc.fi, cl, vc.params, nil, entry, entry)
			vc.addAssume("true", t)
		}
		if pc := vc.P.pcs[vc.fi.pkg.PkgPath]; pc != nil {
			for _, name := range vc.fi.fc.Uses {
				found := false
				for _, l := range pc.Lemmas {
					if l.Name == name && !l.Axiom {
						found = true
						t, err := vc.lemmaTerm(vc.fi.pkg, l, false)
						if err != nil {
							vc.fail("%v", err)
						}
						vc.quantCtx = true
						vc.addAssume("true", t)
						vc.assume("lemma " + name + " used as a fact (it is proved as its own obligation)")
					}
				}
				if !found {
					vc.fail("uses %s: no such lemma", name)
				}
			}
		}
		for _, cl := range vc.fi.fc.Hints {
			vc.addAssume("true", vc.clauseTerm(vc.fi, cl, vc.params, nil, entry, entry))
		}
		// contracts of the interface methods this method implements (behavioural subtyping)
		for _, ifi := range vc.P.ifaceContractsFor(vc.fi) {
			env := vc.ifaceEnv(ifi)
			for _, cl := range ifi.fc.Requires {
				vc.addAssume("true", vc.clauseTerm(ifi, cl, env, nil, entry, entry))
			}
		}
	}
	for _, b := range order {
		vc.block(b, entry)
	}
	vc.finishPanics()
}

func (vc *VC) block(b *ssa.BasicBlock, entry *State) {
	var st *State
	var reach Term
	if (vc.startBlock == nil && b.Index == 0) || b == vc.startBlock {
		st = entry.clone()
		reach = "true"
		if vc.baseReach != "" {
			reach = vc.baseReach
		}
	} else {
		type inc struct {
			pred *ssa.BasicBlock
			cond Term
			st   *State
			idx  int
		}
		var ins []inc
		for i, p := range b.Preds {
			if vc.isBackEdge(p, b) {
				continue
			}
			ps := vc.out[p]
			if ps == nil {
				continue // unreachable predecessor
			}
			ins = append(ins, inc{p, vc.edgeCond(p, b), ps, i})
		}
		if len(ins) == 0 {
			return
		}
		var conds []Term
		for _, in := range ins {
			conds = append(conds, in.cond)
		}
		reach = vc.define(fmt.Sprintf("reach_%d", b.Index), "Bool", or(conds...))
		// merge heap states
		st = &State{heaps: map[string]Term{}}
		names := map[string]bool{}
		for _, in := range ins {
			for k := range in.st.heaps {
				names[k] = true
			}
		}
		for _, k := range sortedKeys(names) {
			sort := vc.heapSort[k]
			t := vc.heapGet(ins[len(ins)-1].st, k, sort)
			same := true
			for _, in := range ins {
				if vc.heapGet(in.st, k, sort) != t {
					same = false
				}
			}
			if !same {
				for j := len(ins) - 2; j >= 0; j-- {
					t = ite(ins[j].cond, vc.heapGet(ins[j].st, k, sort), t)
				}
				t = vc.define(k, sort, t)
			}
			st.heaps[k] = t
		}
		seenDefer := map[*ssa.Defer]bool{}
		for _, in := range ins {
			for _, d := range in.st.defers {
				if !seenDefer[d.in] {
					seenDefer[d.in] = true
					st.defers = append(st.defers, d)
				}
			}
		}
		li := vc.loops[b]
		// phis
		for _, in := range b.Instrs {
			phi, ok := in.(*ssa.Phi)
			if !ok {
				break
			}
			if li != nil {
				continue
			}
			var t Val
			first := true
			for j := len(ins) - 1; j >= 0; j-- {
				ev := vc.val(phi.Edges[ins[j].idx])
				if first {
					t = ev
					first = false
				} else {
					t = vc.iteVal(ins[j].cond, ev, t)
				}
			}
			t = vc.nameVal(phi.Name(), t)
			t.typ = phi.Type()
			vc.vals[phi] = t
		}
		if li != nil {
			// loop header: check invariant on entry, then havoc
			entrySt := st
			entryPhi := map[*ssa.Phi]Val{}
			for _, in := range b.Instrs {
				phi, ok := in.(*ssa.Phi)
				if !ok {
					break
				}
				var t Val
				first := true
				for j := len(ins) - 1; j >= 0; j-- {
					ev := vc.val(phi.Edges[ins[j].idx])
					if first {
						t = ev
						first = false
					} else {
						t = vc.iteVal(ins[j].cond, ev, t)
					}
				}
				entryPhi[phi] = t
			}
			st = vc.loopHeader(li, reach, entrySt, entryPhi)
		}
	}
	vc.reach[b] = reach
	for _, in := range b.Instrs {
		if _, ok := in.(*ssa.Phi); ok {
			continue
		}
		if p := in.Pos(); p.IsValid() {
			vc.curPos = p
		}
		vc.instr(in, st, reach, b)
		if vc.reachOverride != "" {
			reach = vc.reachOverride
			vc.reachOverride = ""
		}
	}
	vc.out[b] = st
}

func (vc *VC) iteVal(c Term, a, b Val) Val {
	if a.tuple != nil {
		var ts []Val
		for i := range a.tuple {
			ts = append(ts, vc.iteVal(c, a.tuple[i], b.tuple[i]))
		}
		return Val{tuple: ts, typ: a.typ}
	}
	if a.lv != nil || b.lv != nil {
		at, bt := vc.ptrTerm(a), vc.ptrTerm(b)
		return Val{t: ite(c, at, bt), typ: a.typ}
	}
	return Val{t: ite(c, a.t, b.t), typ: a.typ}
}

// ptrTerm turns a pointer value into a reference term (only root pointers have one).
func (vc *VC) ptrTerm(v Val) Term {
	if v.lv == nil {
		return v.t
	}
	switch v.lv.kind {
	case lvHeap, lvMemArr:
		return v.lv.ref
	}
	vc.fail("interior pointer used as a first-class value (outside the subset)")
	return ""
}

func (vc *VC) nameVal(name string, v Val) Val {
	if v.tuple != nil || v.lv != nil {
		return v
	}
	v.t = vc.define(name, vc.S.sortOf(v.typ), v.t)
	return v
}

// ---------------------------------------------------------------------------
// loop header: invariant on entry, havoc, assume invariant

func (vc *VC) loopHeader(li *LoopInfo, reach Term, entrySt *State, entryPhi map[*ssa.Phi]Val) *State {
	b := li.header
	fc := (*FuncContract)(nil)
	if vc.fi != nil {
		fc = vc.fi.fc
	}
	// 1. invariant holds on entry
	if fc != nil && li.ordinal > 0 {
		for _, cl := range fc.LoopHint[li.ordinal] {
			// instances of spec-function definitions: true by definition, assumed (entry state)
			vc.addAssume(reach, vc.loopClause(li, cl, entryPhi, entrySt))
		}
		for _, cl := range fc.LoopInv[li.ordinal] {
			t := vc.loopClause(li, cl, entryPhi, entrySt)
			vc.oblige("invariant-entry", fmt.Sprintf("loop%d", li.ordinal), reach, t, b.Instrs[0].Pos(), cl.Text)
		}
	}
	// 2. havoc
	st := entrySt.clone()
	mod := vc.modifiedIn(li)
	li.entryAlloc = vc.allocGet(entrySt)
	// heapSort is complete here: verifyFunc runs a discovery pass first (see main.go)
	if mod["*"] {
		vc.havocAll(st)
	}
	for _, name := range sortedKeys(mod) {
		vc.havocHeap(st, name)
	}
	if !mod["*"] {
		a0 := vc.allocGet(vc.entry)
		for _, name := range sortedKeys(vc.loopFrameFacts(li)) {
			sort, ok := vc.heapSort[name]
			if !ok || !mod[name] {
				continue
			}
			if !strings.HasPrefix(name, "Mem_") && !strings.HasPrefix(name, "Heap_") && !strings.HasPrefix(name, "MapHeap_") {
				continue // locals, globals and iterators are not reference-indexed heaps
			}
			oldH, newH := vc.heapGet(entrySt, name, sort), vc.heapGet(st, name, sort)
			if oldH == newH {
				continue
			}
			r := vc.freshName("r")
			vc.quantCtx = true
			vc.addAssume(reach, "(forall (("+r+" Int)) (! (=> (and (<= 0 "+r+") (< "+r+" "+a0+")) (= (select "+newH+" "+r+") (select "+oldH+" "+r+"))) :pattern ((select "+newH+" "+r+"))))")
			vc.assume("inferred loop frame (checked syntactically): every write into " + name + " inside the loop goes through memory allocated by this activation, so objects that existed at function entry are unchanged")
		}
	}
	if !mod["*"] {
		// single-target loops: every write into a Mem_ heap goes through one loop-invariant slice value
		freshFramed := vc.loopFrameFacts(li)
		singleBase := vc.loopSingleBase(li)
		for _, name := range sortedKeys(singleBase) {
			base := singleBase[name]
			if freshFramed[name] {
				continue // the stronger provenance-based frame already covers this heap
			}
			sort, ok := vc.heapSort[name]
			if !ok || !mod[name] || !strings.HasPrefix(name, "Mem_") {
				continue
			}
			oldH, newH := vc.heapGet(entrySt, name, sort), vc.heapGet(st, name, sort)
			if oldH == newH {
				continue
			}
			bv := vc.val(base)
			r := vc.freshName("r")
			vc.quantCtx = true
			vc.addAssume(reach, "(forall (("+r+" Int)) (! (=> (not (= "+r+" "+slRef(bv.t)+")) (= (select "+newH+" "+r+") (select "+oldH+" "+r+"))) :pattern ((select "+newH+" "+r+"))))")
			j := vc.freshName("j")
			vc.addAssume(reach, "(forall (("+j+" Int)) (! (=> (or (< "+j+" "+slOff(bv.t)+") (>= "+j+" (+ "+slOff(bv.t)+" "+slLen(bv.t)+"))) (= (select (select "+newH+" "+slRef(bv.t)+") "+j+") (select (select "+oldH+" "+slRef(bv.t)+") "+j+"))) :pattern ((select (select "+newH+" "+slRef(bv.t)+") "+j+"))))")
			vc.assume("inferred loop frame (checked syntactically): every write into " + name + " inside the loop is an element store through one loop-invariant slice, so all other arrays and the elements outside that slice are unchanged")
		}
	}
	if fc != nil && li.ordinal > 0 {
		li.frames = nil
		for _, cl := range fc.LoopMod[li.ordinal] {
			v := vc.loopClauseVal(li, cl, entryPhi, entrySt)
			sl, ok := v.typ.Underlying().(*types.Slice)
			if !ok {
				vc.fail("%s:%d: loop modifies needs a slice expression", cl.File, cl.Line)
			}
			name, sort := vc.memName(sl.Elem())
			lf := &loopFrame{heap: name, sort: sort, sl: vc.define("modwin", "Slice", v.t), oldH: vc.heapGet(entrySt, name, sort), text: cl.Text}
			li.frames = append(li.frames, lf)
			if mod[name] || mod["*"] {
				vc.quantCtx = true
				vc.addAssume(reach, vc.loopFrameTerm(lf, vc.heapGet(st, name, sort)))
			}
		}
	}
	vc.flushWF(st)
	li.havocPhi = map[*ssa.Phi]Val{}
	for _, in := range b.Instrs {
		phi, ok := in.(*ssa.Phi)
		if !ok {
			break
		}
		v := vc.freshTyped(st, phi.Name(), phi.Type(), "true")
		// monotone-counter inference: phi >= entry value when every back-edge operand is phi + c, c >= 0
		if _, _, isInt := intInfo(phi.Type()); isInt && vc.monotoneUp(li, phi) {
			vc.addAssume(reach, app(">=", v.t, entryPhi[phi].t))
			vc.assume("inferred loop fact (checked syntactically: every back-edge value is the counter plus a non-negative constant, so it cannot decrease; overflow would need 2^63 iterations): " + vc.fn.Name() + " " + phi.Comment)
		}
		vc.vals[phi] = v
		li.havocPhi[phi] = v
		if phi.Comment == "rangeindex" && vc.fi != nil && vc.fi.fc.QInst {
			// the bounded quantifiers translated before this loop (preconditions, outer invariants) get their
			// instances at this loop's hidden index and at the element it looks at next (tautologies)
			for _, h := range vc.rangeQs {
				for _, t := range []Term{v.t, app("+", v.t, "1")} {
					vc.addAssume("true", implies(h.q, implies(strings.ReplaceAll(h.bound, h.c, t), strings.ReplaceAll(h.body, h.c, t))))
				}
			}
		}
		// range-over-slice/array/int pattern emitted by go/ssa:  k = phi[-1, k1]; k1 = k + 1; if k1 < n
		// every back-edge value k1 passed the guard k1 < n (n loop-invariant), hence k < n at the header.
		if n, ok := vc.rangeIndexBound(li, phi); ok {
			vc.addAssume(reach, and(app("<=", "(- 1)", v.t), app("<", v.t, vc.val(n).t)))
			vc.assume("inferred loop fact (checked syntactically): range index of a `for range` loop stays below the loop-invariant length")
		}
	}
	li.havocState = st.clone()
	// 3. assume invariant
	if fc != nil && li.ordinal > 0 {
		for _, cl := range fc.LoopHint[li.ordinal] {
			vc.addAssume(reach, vc.loopClause(li, cl, li.havocPhi, st))
		}
		for _, cl := range fc.LoopInv[li.ordinal] {
			t := vc.loopClause(li, cl, li.havocPhi, st)
			vc.addAssume(reach, t)
		}
		if cl := fc.LoopDec[li.ordinal]; cl != nil {
			t := vc.loopClause(li, cl, li.havocPhi, st)
			li.variant0 = vc.define("variant", "Int", t)
		}
	}
	return st
}

// monotoneUp: all back-edge operands of phi are phi + nonneg const (through a chain of adds)
func (vc *VC) monotoneUp(li *LoopInfo, phi *ssa.Phi) bool {
	b := li.header
	okAll := true
	any := false
	for i, p := range b.Preds {
		if !vc.isBackEdge(p, b) {
			continue
		}
		any = true
		if !vc.isPhiPlusNonneg(phi.Edges[i], phi, li, 0) {
			okAll = false
		}
	}
	return any && okAll
}

func (vc *VC) isPhiPlusNonneg(v ssa.Value, phi *ssa.Phi, li *LoopInfo, depth int) bool {
	if depth > 8 {
		return false
	}
	if v == phi {
		return true
	}
	switch x := v.(type) {
	case *ssa.BinOp:
		if x.Op == token.ADD {
			if c, ok := x.Y.(*ssa.Const); ok && c.Value != nil && constant.Sign(constant.ToInt(c.Value)) >= 0 {
				// guard against wrap-around: only for int (64-bit) counters bounded by a length is this sound;
				// we restrict to small constants and rely on the loop guard for the bound.
				if v, ok := constant.Int64Val(constant.ToInt(c.Value)); ok && v <= 1<<20 {
					return vc.isPhiPlusNonneg(x.X, phi, li, depth+1)
				}
			}
		}
	case *ssa.Phi:
		if li.blocks[x.Block()] && x != phi && x.Block() != li.header {
			for _, e := range x.Edges {
				if !vc.isPhiPlusNonneg(e, phi, li, depth+1) {
					return false
				}
			}
			return true
		}
	}
	return false
}

// loopClause evaluates an invariant/variant of loop li with the header phis bound to phiVals in state st.
func (vc *VC) loopClause(li *LoopInfo, cl *Clause, phiVals map[*ssa.Phi]Val, st *State) Term {
	return vc.loopClauseVal(li, cl, phiVals, st).t
}

func (vc *VC) loopClauseVal(li *LoopInfo, cl *Clause, phiVals map[*ssa.Phi]Val, st *State) Val {
	env := map[string]Val{}
	for k, v := range vc.params {
		env[k] = v
	}
	if li.marker == nil {
		vc.fail("loop %d has no marker in SSA (body unreachable?)", li.ordinal)
	}
	// marker operand names come from the source call expression
	names := vc.markerNames(li)
	memo := map[ssa.Value]Val{}
	var get getter
	get = func(v ssa.Value) Val {
		if x, ok := memo[v]; ok {
			return x
		}
		if phi, ok := v.(*ssa.Phi); ok {
			if pv, ok := phiVals[phi]; ok {
				return pv
			}
		}
		in, isInstr := v.(ssa.Instruction)
		if !isInstr || !li.blocks[in.Block()] {
			return vc.val(v)
		}
		if _, isPhi := v.(*ssa.Phi); isPhi {
			vc.fail("loop %d: invariant operand %s depends on an inner phi", li.ordinal, v.Name())
		}
		r, ok := vc.pure(in, get, st, "true", false)
		if !ok {
			vc.fail("loop %d: invariant operand %s is not a pure function of the loop header state (%T)", li.ordinal, v.Name(), in)
		}
		memo[v] = r
		return r
	}
	for i, n := range names {
		if pv, isParam := vc.params[n]; isParam {
			env["entry$"+n] = pv
		}
		env[n] = get(li.marker.Call.Args[i+1])
	}
	// `rangeidx`: the hidden index of a `for range` loop over a slice/array/int (the element the
	// next iteration will look at; equals the length on exit)
	if inc := vc.rangeIndexInc(li); inc != nil {
		env["verif_rangeidx"] = get(inc)
	}
	// `rangeseen(k)`: the ghost set of keys a map range loop has produced so far
	for _, in := range li.header.Instrs {
		if n, ok := in.(*ssa.Next); ok {
			if r, ok := n.Iter.(*ssa.Range); ok {
				if mt, ok := r.X.Type().Underlying().(*types.Map); ok && vc.mapRangeNoInsert(r) {
					env["verif_rangeseen"] = Val{t: vc.heapGet(st, "iter@seen@"+r.Name(), "(Array "+vc.S.keySort(mt.Key())+" Bool)"), typ: mt.Key()}
				}
			}
		}
	}
	return vc.clauseVal(vc.fi, cl, env, nil, st, vc.entry)
}

func (vc *VC) markerNames(li *LoopInfo) []string {
	// the i-th marker argument is the i-th variable name in the overlay source; recover from the callee instance args count
	fc := vc.fi.fc
	locals := localNames(vc.fi.decl)
	if vc.fi.lit != nil {
		locals = localNames(litAsDecl(vc.fi.lit))
	}
	var vars []string
	seen := map[string]bool{}
	var clauses []*Clause
	clauses = append(clauses, fc.LoopInv[li.ordinal]...)
	if c := fc.LoopDec[li.ordinal]; c != nil {
		clauses = append(clauses, c)
	}
	clauses = append(clauses, fc.LoopHint[li.ordinal]...)
	for _, cl := range clauses {
		ids, _ := freeIdents(cl.Go)
		for _, id := range ids {
			if locals[id] && !seen[id] {
				seen[id] = true
				vars = append(vars, id)
			}
		}
	}
	if len(vars) != len(li.marker.Call.Args)-1 {
		vc.fail("marker arity mismatch for loop %d", li.ordinal)
	}
	return vars
}

// backEdge: called when block `from` jumps to header h along a back edge.
func (vc *VC) backEdge(from *ssa.BasicBlock, h *ssa.BasicBlock, cond Term, st *State) {
	li := vc.loops[h]
	if vc.fi == nil || li.ordinal == 0 {
		return
	}
	fc := vc.fi.fc
	idx := -1
	for i, p := range h.Preds {
		if p == from {
			idx = i
		}
	}
	phiVals := map[*ssa.Phi]Val{}
	for _, in := range h.Instrs {
		phi, ok := in.(*ssa.Phi)
		if !ok {
			break
		}
		phiVals[phi] = vc.val(phi.Edges[idx])
	}
	for _, cl := range fc.LoopInv[li.ordinal] {
		t := vc.loopClause(li, cl, phiVals, st)
		vc.oblige("invariant-step", fmt.Sprintf("loop%d", li.ordinal), cond, t, from.Instrs[len(from.Instrs)-1].Pos(), cl.Text)
	}
	for _, lf := range li.frames {
		vc.quantCtx = true
		vc.oblige("loop-frame", fmt.Sprintf("loop%d", li.ordinal), cond, vc.loopFrameTerm(lf, vc.heapGet(st, lf.heap, lf.sort)), from.Instrs[len(from.Instrs)-1].Pos(), "loop modifies "+lf.text+"[*]")
	}
	if cl := fc.LoopDec[li.ordinal]; cl != nil {
		t := vc.loopClause(li, cl, phiVals, st)
		vc.oblige("decreases", fmt.Sprintf("loop%d", li.ordinal), cond, and(app("<=", "0", li.variant0), app("<", t, li.variant0)), from.Instrs[len(from.Instrs)-1].Pos(), cl.Text)
	}
}

// ---------------------------------------------------------------------------
// instructions

func (vc *VC) instr(in ssa.Instruction, st *State, reach Term, b *ssa.BasicBlock) {
	defer vc.flushWF(st)
	if v, ok := in.(ssa.Value); ok {
		if r, ok := vc.pure(in, vc.val, st, reach, true); ok {
			if v.Name() != "" {
				r = vc.nameVal(v.Name(), r)
			}
			vc.vals[v] = r
			return
		}
	}
	switch x := in.(type) {
	case *ssa.DebugRef:
	case *ssa.Jump:
		to := b.Succs[0]
		vc.edge[[2]int{b.Index, to.Index}] = reach
		if vc.isBackEdge(b, to) {
			vc.backEdge(b, to, reach, st)
		}
	case *ssa.If:
		c := vc.val(x.Cond).t
		t, f := b.Succs[0], b.Succs[1]
		ct := vc.define(fmt.Sprintf("e_%d_%d", b.Index, t.Index), "Bool", and(reach, c))
		cf := vc.define(fmt.Sprintf("e_%d_%d", b.Index, f.Index), "Bool", and(reach, not(c)))
		if t == f {
			ct, cf = reach, reach
		}
		vc.edge[[2]int{b.Index, t.Index}] = ct
		vc.edge[[2]int{b.Index, f.Index}] = cf
		if vc.isBackEdge(b, t) {
			vc.backEdge(b, t, ct, st)
		}
		if vc.isBackEdge(b, f) {
			vc.backEdge(b, f, cf, st)
		}
	case *ssa.Return:
		vc.ret(x, st, reach)
	case *ssa.Panic:
		vc.panicInstr(x, st, reach)
	case *ssa.Store:
		v := vc.val(x.Val)
		a := vc.val(x.Addr)
		lv := vc.lvOf(a)
		vc.nilCheck(lv, reach, x.Pos(), "store")
		vc.store(st, lv, vc.asTerm(v))
	case *ssa.Alloc:
		t := x.Type().(*types.Pointer).Elem()
		if vc.allocIsLocal(x) && (!x.Heap || vc.capturedReadOnly(x)) {
			// the address never escapes: a state variable of its own, untouched by calls
			lv := &LVal{kind: lvLocal, typ: t, heap: vc.localName(x), nonnil: true}
			vc.store(st, lv, vc.S.zero(t))
			vc.vals[x] = Val{lv: lv, typ: x.Type()}
			return
		}
		r := vc.freshRef(st, x.Name())
		lv := vc.rootLV(x.Type(), r, true)
		vc.store(st, lv, vc.S.zero(t))
		vc.vals[x] = Val{t: r, lv: lv, typ: x.Type()}
		if isStringsBuilder(t) {
			// a new strings.Builder is empty
			vc.bytesOn()
			vc.heapSet(st, builderAccHeap, builderAccSort, app("store", vc.heapGet(st, builderAccHeap, builderAccSort), r, bytesEmpty))
		}
	case *ssa.MakeSlice:
		vc.makeSlice(x, st, reach)
	case *ssa.MakeMap:
		mt := x.Type().Underlying().(*types.Map)
		name, sort, ms := vc.mapHeapName(mt)
		r := vc.freshRef(st, x.Name())
		h := vc.heapGet(st, name, sort)
		empty := app(ms.ctor(), "((as const (Array "+vc.S.keySort(mt.Key())+" Bool)) false)",
			"((as const (Array "+vc.S.keySort(mt.Key())+" "+vc.S.sortOf(mt.Elem())+")) "+vc.S.zero(mt.Elem())+")", "0")
		vc.heapSet(st, name, sort, app("store", h, r, empty))
		vc.vals[x] = Val{t: r, typ: x.Type()}
		vc.nonnil[x] = true
	case *ssa.MapUpdate:
		vc.mapUpdate(x, st, reach)
	case *ssa.Convert:
		vc.convertAlloc(x, st, reach)
	case *ssa.Call:
		r := vc.call(x, x.Common(), st, reach)
		if x.Name() != "" && r.tuple == nil && r.lv == nil && r.t != "" {
			r = vc.nameVal(x.Name(), r)
		}
		vc.vals[x] = r
	case *ssa.Range:
		vc.rangeInit(x, st, reach)
	case *ssa.Next:
		vc.next(x, st, reach)
	case *ssa.MakeClosure:
		r := vc.freshRef(st, x.Name())
		vc.vals[x] = Val{t: r, typ: x.Type()}
		vc.closure[x] = x
		vc.nonnil[x] = true
	case *ssa.Defer:
		vc.deferInstr(x, st, reach)
	case *ssa.RunDefers:
		vc.runDefers(x, st, reach)
	case *ssa.Go:
		vc.unsuppNote("go statement: spawned goroutine abstracted (arguments escape)")
		vc.havocAll(st)
	case *ssa.MakeChan:
		r := vc.freshRef(st, x.Name())
		vc.vals[x] = Val{t: r, typ: x.Type()}
	case *ssa.Send:
		vc.unsuppNote("channel send abstracted")
	case *ssa.Select:
		vc.unsuppNote("select abstracted as nondeterministic choice")
		vc.vals[x] = vc.freshTyped(st, x.Name(), x.Type(), reach)
	default:
		vc.fail("unsupported instruction %T: %s", in, in)
	}
}

func (vc *VC) unsuppNote(s string) {
	vc.assume("abstracted: " + s + " in " + vc.fn.String())
}

func (vc *VC) asTerm(v Val) Term {
	if v.lv != nil {
		return vc.ptrTerm(v)
	}
	if v.tuple != nil {
		vc.fail("tuple used as a value")
	}
	return v.t
}

func (vc *VC) nilCheck(lv *LVal, guard Term, pos token.Pos, what string) {
	r := lv.root()
	if r.nonnil {
		return
	}
	if r.kind == lvHeap || r.kind == lvMemArr {
		vc.oblige("safe:nil", what, guard, not(eq(r.ref, "0")), pos, vc.construct(pos))
		r.nonnil = true
	}
}

func (vc *VC) construct(pos token.Pos) string {
	return vc.P.sourceLine(pos)
}

// pure translates side-effect-free instructions. emit=false: no obligations (contract context).
func (vc *VC) pure(in ssa.Instruction, get getter, st *State, guard Term, emit bool) (Val, bool) {
	switch x := in.(type) {
	case *ssa.BinOp:
		return vc.binop(x, get, guard, emit), true
	case *ssa.UnOp:
		if x.Op == token.ARROW {
			return Val{}, false
		}
		return vc.unop(x, get, st, guard, emit), true
	case *ssa.ChangeType:
		v := get(x.X)
		v.typ = x.Type()
		return v, true
	case *ssa.ChangeInterface:
		v := get(x.X)
		v.typ = x.Type()
		return v, true
	case *ssa.Convert:
		if _, isSlice := x.Type().Underlying().(*types.Slice); isSlice {
			return Val{}, false
		}
		return vc.convert(x, get, st, guard, emit), true
	case *ssa.MakeInterface:
		v := get(x.X)
		if isInterface(x.X.Type()) {
			v.typ = x.Type()
			return v, true
		}
		bx := vc.S.boxOf(x.X.Type())
		return Val{t: app(bx.ctor, vc.asTerm(v)), typ: x.Type()}, true
	case *ssa.Extract:
		tv := get(x.Tuple)
		if tv.tuple == nil {
			vc.fail("extract from non-tuple")
		}
		return tv.tuple[x.Index], true
	case *ssa.Field:
		v := get(x.X)
		ss := vc.S.structOf(x.X.Type())
		return Val{t: app(ss.fields[x.Field], v.t), typ: x.Type()}, true
	case *ssa.FieldAddr:
		base := get(x.X)
		lv := vc.lvOf(base)
		if emit {
			vc.nilCheck(lv, guard, x.Pos(), "field")
		}
		st := lv.typ.Underlying().(*types.Struct)
		return Val{lv: &LVal{kind: lvField, typ: st.Field(x.Field).Type(), parent: lv, field: x.Field}, typ: x.Type()}, true
	case *ssa.IndexAddr:
		return vc.indexAddr(x, get, st, guard, emit), true
	case *ssa.Index:
		v := get(x.X)
		i := get(x.Index).t
		switch t := x.X.Type().Underlying().(type) {
		case *types.Array:
			if emit {
				vc.oblige("safe:index", "", guard, and(app("<=", "0", i), app("<", i, num(t.Len()))), x.Pos(), vc.construct(x.Pos()))
			}
			r := Val{t: app("select", v.t, i), typ: x.Type()}
			if emit {
				r = vc.nameVal(x.Name(), r)
				vc.addAssume(guard, vc.typeFacts(st, x.Type(), r.t, 0))
			}
			return r, true
		case *types.Basic: // string (generic code); normally Lookup
			if emit {
				vc.oblige("safe:index", "", guard, and(app("<=", "0", i), app("<", i, strLen(v.t))), x.Pos(), vc.construct(x.Pos()))
			}
			r := Val{t: strAt(v.t, i), typ: x.Type()}
			if emit {
				r = vc.nameVal(x.Name(), r)
				vc.addAssume(guard, and(app("<=", "0", r.t), app("<=", r.t, "255")))
			}
			return r, true
		}
		return Val{}, false
	case *ssa.Lookup:
		return vc.lookup(x, get, st, guard, emit), true
	case *ssa.Slice:
		return vc.slice(x, get, st, guard, emit), true
	case *ssa.TypeAssert:
		return vc.typeAssert(x, get, guard, emit), true
	case *ssa.Call:
		if bi, ok := x.Call.Value.(*ssa.Builtin); ok {
			switch bi.Name() {
			case "len", "cap", "min", "max":
				return vc.builtinPure(bi.Name(), x.Call.Args, get, st, x.Type()), true
			}
		}
		if _, ok := markerOrdinal(x); ok {
			return Val{typ: x.Type()}, true
		}
	}
	return Val{}, false
}

func (vc *VC) builtinPure(name string, args []ssa.Value, get getter, st *State, rt types.Type) Val {
	switch name {
	case "len":
		a := get(args[0])
		switch t := args[0].Type().Underlying().(type) {
		case *types.Basic:
			return Val{t: strLen(a.t), typ: rt}
		case *types.Slice:
			return Val{t: slLen(a.t), typ: rt}
		case *types.Array:
			return Val{t: num(t.Len()), typ: rt}
		case *types.Pointer:
			return Val{t: num(t.Elem().Underlying().(*types.Array).Len()), typ: rt}
		case *types.Map:
			name, sort, ms := vc.mapHeapName(t)
			return Val{t: app(ms.size(), app("select", vc.heapGet(st, name, sort), a.t)), typ: rt}
		case *types.Chan:
			return vc.freshTyped(st, "chanlen", rt, "true")
		}
	case "cap":
		a := get(args[0])
		switch t := args[0].Type().Underlying().(type) {
		case *types.Slice:
			return Val{t: slCap(a.t), typ: rt}
		case *types.Array:
			return Val{t: num(t.Len()), typ: rt}
		case *types.Pointer:
			return Val{t: num(t.Elem().Underlying().(*types.Array).Len()), typ: rt}
		}
	case "min", "max":
		r := get(args[0]).t
		if isFloat(rt) || isString(rt) {
			vc.fail("min/max on non-integers")
		}
		for _, a := range args[1:] {
			y := get(a).t
			if name == "min" {
				r = ite(app("<=", r, y), r, y)
			} else {
				r = ite(app(">=", r, y), r, y)
			}
		}
		return Val{t: r, typ: rt}
	}
	vc.fail("builtin %s on %s", name, args[0].Type())
	return Val{}
}

func (vc *VC) binop(x *ssa.BinOp, get getter, guard Term, emit bool) Val {
	a, b := get(x.X), get(x.Y)
	t := x.X.Type()
	rt := x.Type()
	switch {
	case isInterface(t) || isInterface(x.Y.Type()):
		// interface comparison
		at, bt := vc.asDyn(a, x.X.Type()), vc.asDyn(b, x.Y.Type())
		switch x.Op {
		case token.EQL:
			return Val{t: vc.dynEq(at, bt), typ: rt}
		case token.NEQ:
			return Val{t: not(vc.dynEq(at, bt)), typ: rt}
		}
	case isString(t):
		switch x.Op {
		case token.ADD:
			return Val{t: vc.strConcat(a.t, b.t), typ: rt}
		case token.EQL:
			return Val{t: vc.strEq(x.X, x.Y, a.t, b.t), typ: rt}
		case token.NEQ:
			return Val{t: not(vc.strEq(x.X, x.Y, a.t, b.t)), typ: rt}
		default:
			f := vc.declareFun("str.cmp", []string{"Str", "Str"}, "Int")
			c := app(f, a.t, b.t)
			op := map[token.Token]string{token.LSS: "<", token.LEQ: "<=", token.GTR: ">", token.GEQ: ">="}[x.Op]
			return Val{t: app(op, c, "0"), typ: rt}
		}
	case isFloat(t):
		return vc.floatOp(x.Op, a.t, b.t, rt)
	case isBool(t):
		switch x.Op {
		case token.EQL:
			return Val{t: eq(a.t, b.t), typ: rt}
		case token.NEQ:
			return Val{t: not(eq(a.t, b.t)), typ: rt}
		case token.AND, token.LAND:
			return Val{t: and(a.t, b.t), typ: rt}
		case token.OR, token.LOR:
			return Val{t: or(a.t, b.t), typ: rt}
		}
	}
	if _, _, isInt := intInfo(t); isInt {
		return vc.intOp(x, a.t, b.t, guard, emit)
	}
	// pointers, structs, arrays ...: equality only
	switch x.Op {
	case token.EQL:
		return Val{t: eq(vc.asTerm(a), vc.asTerm(b)), typ: rt}
	case token.NEQ:
		return Val{t: not(eq(vc.asTerm(a), vc.asTerm(b))), typ: rt}
	}
	vc.fail("binop %s on %s", x.Op, t)
	return Val{}
}

func (vc *VC) floatOp(op token.Token, a, b Term, rt types.Type) Val {
	vc.S.useF64 = true
	switch op {
	case token.ADD, token.SUB, token.MUL, token.QUO:
		f := vc.declareFun("f64."+map[token.Token]string{token.ADD: "add", token.SUB: "sub", token.MUL: "mul", token.QUO: "div"}[op], []string{"F64", "F64"}, "F64")
		return Val{t: app(f, a, b), typ: rt}
	case token.EQL:
		f := vc.declareFun("f64.eq", []string{"F64", "F64"}, "Bool")
		return Val{t: app(f, a, b), typ: rt}
	case token.NEQ:
		f := vc.declareFun("f64.eq", []string{"F64", "F64"}, "Bool")
		return Val{t: not(app(f, a, b)), typ: rt}
	case token.LSS, token.GTR:
		f := vc.declareFun("f64.lt", []string{"F64", "F64"}, "Bool")
		if op == token.GTR {
			a, b = b, a
		}
		return Val{t: app(f, a, b), typ: rt}
	case token.LEQ, token.GEQ:
		f := vc.declareFun("f64.le", []string{"F64", "F64"}, "Bool")
		if op == token.GEQ {
			a, b = b, a
		}
		return Val{t: app(f, a, b), typ: rt}
	}
	vc.fail("float op %s", op)
	return Val{}
}

func pow2(k int64) *big.Int { return new(big.Int).Lsh(big.NewInt(1), uint(k)) }

func constOf(t Term) (*big.Int, bool) {
	s := t
	neg := false
	if strings.HasPrefix(s, "(- ") && strings.HasSuffix(s, ")") {
		s = s[3 : len(s)-1]
		neg = true
	}
	n, ok := new(big.Int).SetString(s, 10)
	if !ok {
		return nil, false
	}
	if neg {
		n.Neg(n)
	}
	return n, true
}

func (vc *VC) intOp(x *ssa.BinOp, a, b Term, guard Term, emit bool) Val {
	t := x.X.Type()
	rt := x.Type()
	bits, signed, _ := intInfo(t)
	switch x.Op {
	case token.ADD:
		if phi, ok := x.X.(*ssa.Phi); ok && phi.Comment == "rangeindex" && vc.fi != nil && vc.fi.fc.QInst {
			if c, ok := x.Y.(*ssa.Const); ok && c.Value != nil && c.Int64() == 1 {
				// the hidden index of `for range` over a slice, array or string runs from -1 to len-1: its
				// increment cannot wrap, and a wrap term here would hide the index from quantifier patterns
				return Val{t: app("+", a, b), typ: rt}
			}
		}
		vc.overflowCheck(rt, app("+", a, b), guard, emit, x.Pos())
		return Val{t: wrapInt(rt, app("+", a, b), true), typ: rt}
	case token.SUB:
		vc.overflowCheck(rt, app("-", a, b), guard, emit, x.Pos())
		return Val{t: wrapInt(rt, app("-", a, b), true), typ: rt}
	case token.MUL:
		vc.overflowCheck(rt, app("*", a, b), guard, emit, x.Pos())
		return Val{t: wrapInt(rt, app("*", a, b), false), typ: rt}
	case token.QUO, token.REM:
		if emit {
			vc.oblige("safe:div", "", guard, not(eq(b, "0")), x.Pos(), vc.construct(x.Pos()))
		}
		// Go truncated division
		q := vc.truncDiv(a, b)
		if x.Op == token.QUO {
			if signed {
				vc.overflowCheck(rt, q, guard, emit, x.Pos())
				return Val{t: wrapInt(rt, q, true), typ: rt} // MinInt / -1 wraps
			}
			return Val{t: q, typ: rt}
		}
		return Val{t: app("-", a, app("*", b, q)), typ: rt}
	case token.EQL:
		return Val{t: eq(a, b), typ: rt}
	case token.NEQ:
		return Val{t: not(eq(a, b)), typ: rt}
	case token.LSS:
		return Val{t: app("<", a, b), typ: rt}
	case token.LEQ:
		return Val{t: app("<=", a, b), typ: rt}
	case token.GTR:
		return Val{t: app(">", a, b), typ: rt}
	case token.GEQ:
		return Val{t: app(">=", a, b), typ: rt}
	case token.SHL, token.SHR:
		// shift count: negative signed count panics
		if _, ysigned, _ := intInfo(x.Y.Type()); ysigned && emit {
			if c, ok := constOf(b); !ok || c.Sign() < 0 {
				vc.oblige("safe:shift", "", guard, app("<=", "0", b), x.Pos(), vc.construct(x.Pos()))
			}
		}
		if c, ok := constOf(b); ok && c.IsInt64() && c.Int64() >= 0 && c.Int64() < 128 {
			k := c.Int64()
			if x.Op == token.SHL {
				if k >= int64(bits) {
					return Val{t: "0", typ: rt}
				}
				return Val{t: wrapInt(rt, app("*", a, bigNum(pow2(k))), false), typ: rt}
			}
			if k >= int64(bits) {
				if signed {
					return Val{t: ite(app("<", a, "0"), "(- 1)", "0"), typ: rt}
				}
				return Val{t: "0", typ: rt}
			}
			return Val{t: app("div", a, bigNum(pow2(k))), typ: rt} // floor division = arithmetic shift
		}
		f := vc.declareFun(fmt.Sprintf("int.%s%d", map[bool]string{true: "shl", false: "shr"}[x.Op == token.SHL], bits), []string{"Int", "Int"}, "Int")
		r := app(f, a, b)
		vc.addAssume("true", inRange(rt, r))
		vc.assume("bit operation treated as uninterpreted: variable shift in " + vc.fn.String())
		return Val{t: r, typ: rt}
	case token.AND:
		// x & (2^k - 1)  ==  x mod 2^k   (two's complement, also for negative x)
		for _, pr := range [][2]Term{{a, b}, {b, a}} {
			if c, ok := constOf(pr[1]); ok && c.Sign() >= 0 {
				c1 := new(big.Int).Add(c, big.NewInt(1))
				if c1.BitLen() > 0 && new(big.Int).And(c1, c).Sign() == 0 {
					return Val{t: app("mod", pr[0], bigNum(c1)), typ: rt}
				}
			}
		}
		return vc.bitUF("and", bits, a, b, rt, !signed)
	case token.OR:
		return vc.bitUF("or", bits, a, b, rt, false)
	case token.XOR:
		return vc.bitUF("xor", bits, a, b, rt, false)
	case token.AND_NOT:
		return vc.bitUF("andnot", bits, a, b, rt, !signed)
	}
	vc.fail("int op %s", x.Op)
	return Val{}
}

func (vc *VC) bitUF(op string, bits int, a, b Term, rt types.Type, boundedByA bool) Val {
	f := vc.declareFun(fmt.Sprintf("int.%s%d", op, bits), []string{"Int", "Int"}, "Int")
	r := app(f, a, b)
	facts := inRange(rt, r)
	if boundedByA {
		facts = and(facts, app("<=", r, a))
	}
	if vc.noDefine {
		// under a binder the operands are bound variables: state the range fact once, for all operands
		if !vc.declSet[f+"!range"] {
			vc.declSet[f+"!range"] = true
			fa := app(f, "a", "b")
			g := inRange(rt, fa)
			if boundedByA {
				g = and(g, implies(app("<=", "0", "a"), app("<=", fa, "a")))
			}
			vc.quantCtx = true
			vc.addAssume("true", "(forall ((a Int) (b Int)) (! "+g+" :pattern ("+fa+")))")
		}
	} else {
		vc.addAssume("true", facts)
	}
	vc.assume("bit operation treated as uninterpreted (range facts only, exact for all-zero / all-one operands): " + op + " in " + vc.fn.String())
	// exact cases: one operand 0 or all ones (-1 signed / max unsigned)
	_, signed, _ := intInfo(rt)
	ones := "(- 1)"
	if !signed {
		_, hi, _ := intRange(rt)
		ones = bigNum(hi)
	}
	neg := func(x Term) Term { // bitwise complement
		if signed {
			return app("-", app("-", x), "1")
		}
		return app("-", ones, x)
	}
	res := r
	switch op {
	case "xor":
		res = ite(eq(b, "0"), a, ite(eq(a, "0"), b, ite(eq(b, ones), neg(a), ite(eq(a, ones), neg(b), r))))
	case "and":
		res = ite(or(eq(a, "0"), eq(b, "0")), "0", ite(eq(b, ones), a, ite(eq(a, ones), b, r)))
	case "or":
		res = ite(eq(b, "0"), a, ite(eq(a, "0"), b, ite(or(eq(a, ones), eq(b, ones)), ones, r)))
	}
	return Val{t: res, typ: rt}
}

func (vc *VC) truncDiv(a, b Term) Term {
	// SMT div is floor for positive divisor, ceiling for negative: a = b*q + r, 0 <= r < |b|
	// truncated: q' = q if a >= 0 or r == 0; else q+1 (b>0) / q-1 (b<0)
	q := app("div", a, b)
	r := app("mod", a, b)
	return ite(or(app(">=", a, "0"), eq(r, "0")), q, ite(app(">", b, "0"), app("+", q, "1"), app("-", q, "1")))
}

func (vc *VC) unop(x *ssa.UnOp, get getter, st *State, guard Term, emit bool) Val {
	rt := x.Type()
	switch x.Op {
	case token.NOT:
		return Val{t: not(get(x.X).t), typ: rt}
	case token.SUB:
		a := get(x.X).t
		if isFloat(rt) {
			f := vc.declareFun("f64.neg", []string{"F64"}, "F64")
			return Val{t: app(f, a), typ: rt}
		}
		vc.overflowCheck(rt, app("-", a), guard, emit, x.Pos())
		return Val{t: wrapInt(rt, app("-", a), true), typ: rt}
	case token.XOR:
		a := get(x.X).t
		_, signed, _ := intInfo(rt)
		if signed {
			return Val{t: app("-", app("-", a), "1"), typ: rt}
		}
		_, hi, _ := intRange(rt)
		return Val{t: app("-", bigNum(hi), a), typ: rt}
	case token.MUL:
		p := get(x.X)
		lv := vc.lvOf(p)
		if emit {
			vc.nilCheck(lv, guard, x.Pos(), "load")
		}
		t := vc.load(st, lv)
		v := Val{t: t, typ: rt}
		if emit {
			v = vc.nameVal(x.Name(), v)
			vc.addAssume(guard, vc.typeFacts(st, rt, v.t, 0))
		}
		return v
	}
	vc.fail("unop %s", x.Op)
	return Val{}
}

func (vc *VC) indexAddr(x *ssa.IndexAddr, get getter, st *State, guard Term, emit bool) Val {
	base := get(x.X)
	i := get(x.Index).t
	switch t := x.X.Type().Underlying().(type) {
	case *types.Slice:
		if emit {
			vc.oblige("safe:index", "", guard, and(app("<=", "0", i), app("<", i, slLen(base.t))), x.Pos(), vc.construct(x.Pos()))
		}
		name, _ := vc.memName(t.Elem())
		return Val{lv: &LVal{kind: lvElem, typ: t.Elem(), ref: slRef(base.t), idx: vc.elemIx(slOff(base.t), i), heap: name, nonnil: true}, typ: x.Type()}
	case *types.Pointer:
		at := t.Elem().Underlying().(*types.Array)
		lv := vc.lvOf(base)
		if emit {
			vc.nilCheck(lv, guard, x.Pos(), "index")
			vc.oblige("safe:index", "", guard, and(app("<=", "0", i), app("<", i, num(at.Len()))), x.Pos(), vc.construct(x.Pos()))
		}
		if lv.kind == lvMemArr {
			return Val{lv: &LVal{kind: lvElem, typ: at.Elem(), ref: lv.ref, idx: i, heap: lv.heap, nonnil: true}, typ: x.Type()}
		}
		return Val{lv: &LVal{kind: lvArrElem, typ: at.Elem(), parent: lv, idx: i}, typ: x.Type()}
	}
	vc.fail("IndexAddr on %s", x.X.Type())
	return Val{}
}

func (vc *VC) lookup(x *ssa.Lookup, get getter, st *State, guard Term, emit bool) Val {
	a := get(x.X)
	k := get(x.Index)
	switch t := x.X.Type().Underlying().(type) {
	case *types.Basic: // string
		if emit {
			vc.oblige("safe:index", "", guard, and(app("<=", "0", k.t), app("<", k.t, strLen(a.t))), x.Pos(), vc.construct(x.Pos()))
		}
		r := Val{t: strAt(a.t, k.t), typ: x.Type()}
		if emit {
			r = vc.nameVal(x.Name(), r)
			vc.addAssume(guard, and(app("<=", "0", r.t), app("<=", r.t, "255")))
		}
		return r
	case *types.Map:
		name, sort, ms := vc.mapHeapName(t)
		m := app("select", vc.heapGet(st, name, sort), a.t)
		kt := vc.mapKey(k, t.Key())
		present := app("select", app(ms.present(), m), kt)
		v := ite(present, app("select", app(ms.vals(), m), kt), vc.S.zero(t.Elem()))
		if x.CommaOk {
			vv := Val{t: v, typ: t.Elem()}
			if emit {
				vv = vc.nameVal(x.Name()+".v", vv)
				vc.addAssume(guard, vc.typeFacts(st, t.Elem(), vv.t, 0))
			}
			return Val{tuple: []Val{vv, {t: present, typ: types.Typ[types.Bool]}}, typ: x.Type()}
		}
		r := Val{t: v, typ: x.Type()}
		if emit {
			r = vc.nameVal(x.Name(), r)
			vc.addAssume(guard, vc.typeFacts(st, t.Elem(), r.t, 0))
		}
		return r
	}
	vc.fail("Lookup on %s", x.X.Type())
	return Val{}
}

func (vc *VC) mapKey(k Val, kt types.Type) Term {
	return vc.mapKeyTerm(vc.asTerm(k), kt)
}

// mapKeyTerm: Go compares string keys by contents, the SMT arrays of the map model by term identity;
// string keys are therefore interned: str.id(a) = str.id(b) exactly when the strings are equal (str.eq),
// and the map arrays are indexed by that integer (see keySort).
func (vc *VC) mapKeyTerm(k Term, kt types.Type) Term {
	b, ok := kt.Underlying().(*types.Basic)
	if !ok || b.Info()&types.IsString == 0 {
		return k
	}
	eqf := vc.strEqFun()
	f := vc.declareFun("str.id", []string{"Str"}, "Int")
	if !vc.declSet["str.id.ax"] {
		vc.declSet["str.id.ax"] = true
		vc.quantCtx = true
		vc.decls = append(vc.decls,
			"(assert (forall ((a Str) (b Str)) (! (=> ("+eqf+" a b) (= (str.id a) (str.id b))) :pattern (("+eqf+" a b)))))",
			"(assert (forall ((a Str) (b Str)) (! (=> (= (str.id a) (str.id b)) ("+eqf+" a b)) :pattern ((str.id a) (str.id b)))))")
	}
	return app(f, k)
}

func (vc *VC) mapUpdate(x *ssa.MapUpdate, st *State, reach Term) {
	mt := x.Map.Type().Underlying().(*types.Map)
	name, sort, ms := vc.mapHeapName(mt)
	mref := vc.val(x.Map).t
	if !vc.nonnil[x.Map] {
		vc.oblige("safe:nilmap", "", reach, not(eq(mref, "0")), x.Pos(), vc.construct(x.Pos()))
	}
	h := vc.heapGet(st, name, sort)
	m := vc.define("m", ms.name, app("select", h, mref))
	k := vc.mapKey(vc.val(x.Key), mt.Key())
	v := vc.asTerm(vc.val(x.Value))
	was := app("select", app(ms.present(), m), k)
	nm := app(ms.ctor(), app("store", app(ms.present(), m), k, "true"), app("store", app(ms.vals(), m), k, v),
		ite(was, app(ms.size(), m), app("+", app(ms.size(), m), "1")))
	vc.heapSet(st, name, sort, app("store", h, mref, nm))
}

func (vc *VC) slice(x *ssa.Slice, get getter, st *State, guard Term, emit bool) Val {
	base := get(x.X)
	var lo, hi, max Term
	if x.Low != nil {
		lo = get(x.Low).t
	} else {
		lo = "0"
	}
	con := vc.construct(x.Pos())
	switch t := x.X.Type().Underlying().(type) {
	case *types.Basic: // string
		if x.High != nil {
			hi = get(x.High).t
		} else {
			hi = strLen(base.t)
		}
		if emit {
			vc.oblige("safe:slice", "", guard, and(app("<=", "0", lo), app("<=", lo, hi), app("<=", hi, strLen(base.t))), x.Pos(), con)
		}
		return Val{t: app("mkstr", app("st.base", base.t), add(app("st.off", base.t), lo), sub(hi, lo)), typ: x.Type()}
	case *types.Slice:
		if x.High != nil {
			hi = get(x.High).t
		} else {
			hi = slLen(base.t)
		}
		if x.Max != nil {
			max = get(x.Max).t
		} else {
			max = slCap(base.t)
		}
		if emit {
			c := and(app("<=", "0", lo), app("<=", lo, hi), app("<=", hi, max))
			if x.Max != nil {
				c = and(c, app("<=", max, slCap(base.t)))
			}
			vc.oblige("safe:slice", "", guard, c, x.Pos(), con)
		}
		return Val{t: app("mkslice", slRef(base.t), add(slOff(base.t), lo), sub(hi, lo), sub(max, lo)), typ: x.Type()}
	case *types.Pointer:
		at := t.Elem().Underlying().(*types.Array)
		n := num(at.Len())
		if x.High != nil {
			hi = get(x.High).t
		} else {
			hi = n
		}
		if x.Max != nil {
			max = get(x.Max).t
		} else {
			max = n
		}
		lv := vc.lvOf(base)
		if lv.kind != lvMemArr {
			vc.fail("slicing an array that is a struct field (outside the subset)")
		}
		if emit {
			vc.nilCheck(lv, guard, x.Pos(), "slice")
			c := and(app("<=", "0", lo), app("<=", lo, hi), app("<=", hi, max), app("<=", max, n))
			vc.oblige("safe:slice", "", guard, c, x.Pos(), con)
		}
		return Val{t: app("mkslice", lv.ref, lo, sub(hi, lo), sub(max, lo)), typ: x.Type()}
	}
	vc.fail("Slice on %s", x.X.Type())
	return Val{}
}

func (vc *VC) makeSlice(x *ssa.MakeSlice, st *State, reach Term) {
	et := x.Type().Underlying().(*types.Slice).Elem()
	l := vc.val(x.Len).t
	c := vc.val(x.Cap).t
	vc.oblige("safe:makeslice", "", reach, and(app("<=", "0", l), app("<=", l, c)), x.Pos(), vc.construct(x.Pos()))
	r := vc.freshRef(st, x.Name()+".ref")
	name, sort := vc.memName(et)
	h := vc.heapGet(st, name, sort)
	vc.heapSet(st, name, sort, app("store", h, r, "((as const (Array Int "+vc.S.sortOf(et)+")) "+vc.S.zero(et)+")"))
	v := Val{t: app("mkslice", r, "0", l, c), typ: x.Type()}
	vc.vals[x] = vc.nameVal(x.Name(), v)
}

func (vc *VC) convert(x *ssa.Convert, get getter, st *State, guard Term, emit bool) Val {
	from, to := x.X.Type(), x.Type()
	a := get(x.X)
	_, _, fi := intInfo(from)
	_, _, ti := intInfo(to)
	switch {
	case fi && ti:
		flo, fhi, _ := intRange(from)
		tlo, thi, _ := intRange(to)
		if flo.Cmp(tlo) >= 0 && fhi.Cmp(thi) <= 0 {
			return Val{t: a.t, typ: to}
		}
		vc.overflowCheck(to, a.t, guard, emit, x.Pos())
		return Val{t: wrapInt(to, a.t, false), typ: to}
	case fi && isFloat(to):
		f := vc.declareFun("f64.fromint", []string{"Int"}, "F64")
		return Val{t: app(f, a.t), typ: to}
	case isFloat(from) && ti:
		f := vc.declareFun("f64.toint_"+vc.S.typeKey(to.Underlying()), []string{"F64"}, "Int")
		r := app(f, a.t)
		vc.addAssume("true", inRange(to, r))
		return Val{t: r, typ: to}
	case isFloat(from) && isFloat(to):
		if types.Identical(from.Underlying(), to.Underlying()) {
			return Val{t: a.t, typ: to}
		}
		f := vc.declareFun("f64.conv_"+vc.S.typeKey(to.Underlying()), []string{"F64"}, "F64")
		return Val{t: app(f, a.t), typ: to}
	case isString(to) && fi:
		// string(rune)
		f := vc.declareFun("str.fromrune", []string{"Int"}, "Str")
		r := app(f, a.t)
		vc.addAssume("true", and(app("<=", "1", strLen(r)), app("<=", strLen(r), "4"), app("<=", "0", app("st.off", r))))
		vc.assume("string(rune) is an uninterpreted function with 1 <= len <= 4")
		return Val{t: r, typ: to}
	case isString(to):
		if sl, ok := from.Underlying().(*types.Slice); ok {
			if b, ok := sl.Elem().Underlying().(*types.Basic); ok && b.Kind() == types.Uint8 {
				name, sort := vc.memName(sl.Elem())
				return Val{t: app("mkstr", app("select", vc.heapGet(st, name, sort), slRef(a.t)), slOff(a.t), slLen(a.t)), typ: to}
			}
			f := vc.declareFun("str.fromrunes", []string{"Slice"}, "Str")
			r := app(f, a.t)
			vc.addAssume("true", and(app("<=", "0", strLen(r)), app("<=", "0", app("st.off", r))))
			return Val{t: r, typ: to}
		}
	case isString(from) && isString(to):
		return Val{t: a.t, typ: to}
	}
	if _, ok := to.Underlying().(*types.Pointer); ok {
		a.typ = to
		return a
	}
	if b, ok := to.Underlying().(*types.Basic); ok && b.Kind() == types.UnsafePointer {
		return Val{t: vc.asTerm(a), typ: to}
	}
	vc.fail("convert %s -> %s", from, to)
	return Val{}
}

// convertAlloc: string -> []byte / []rune (allocating conversions)
func (vc *VC) convertAlloc(x *ssa.Convert, st *State, reach Term) {
	sl := x.Type().Underlying().(*types.Slice)
	a := vc.val(x.X)
	if !isString(x.X.Type()) {
		vc.fail("convert %s -> %s", x.X.Type(), x.Type())
	}
	r := vc.freshRef(st, x.Name()+".ref")
	name, sort := vc.memName(sl.Elem())
	h := vc.heapGet(st, name, sort)
	if b, ok := sl.Elem().Underlying().(*types.Basic); ok && b.Kind() == types.Uint8 {
		vc.heapSet(st, name, sort, app("store", h, r, app("st.base", a.t)))
		v := Val{t: app("mkslice", r, app("st.off", a.t), strLen(a.t), strLen(a.t)), typ: x.Type()}
		vc.vals[x] = vc.nameVal(x.Name(), v)
		return
	}
	// []rune(s): contents uninterpreted, 0 <= len <= len(s)
	arr := vc.freshConst("runes", "(Array Int Int)")
	vc.heapSet(st, name, sort, app("store", h, r, arr))
	n := vc.freshConst("nrunes", "Int")
	vc.addAssume(reach, and(app("<=", "0", n), app("<=", n, strLen(a.t))))
	vc.vals[x] = Val{t: app("mkslice", r, "0", n, n), typ: x.Type()}
}

func (vc *VC) asDyn(v Val, t types.Type) Term {
	if isInterface(t) {
		return v.t
	}
	if b, ok := t.Underlying().(*types.Basic); ok && b.Kind() == types.UntypedNil {
		return "dnil"
	}
	return app(vc.S.boxOf(t).ctor, vc.asTerm(v))
}

func (vc *VC) dynEq(a, b Term) Term {
	if a == "dnil" {
		return app("(_ is dnil)", b)
	}
	if b == "dnil" {
		return app("(_ is dnil)", a)
	}
	return eq(a, b)
}

func (vc *VC) typeAssert(x *ssa.TypeAssert, get getter, guard Term, emit bool) Val {
	v := get(x.X)
	at := x.AssertedType
	var ok, val Term
	if isInterface(at) {
		it := at.Underlying().(*types.Interface)
		if it.NumMethods() == 0 {
			ok = not(app("(_ is dnil)", v.t))
		} else {
			ok = and(not(app("(_ is dnil)", v.t)), app(vc.implFun(at), v.t))
		}
		val = ite(ok, v.t, "dnil")
	} else {
		bx := vc.S.boxOf(at)
		ok = app("(_ is "+bx.ctor+")", v.t)
		val = ite(ok, app(bx.acc, v.t), vc.S.zero(at))
	}
	if x.CommaOk {
		vv := Val{t: val, typ: at}
		okv := Val{t: ok, typ: types.Typ[types.Bool]}
		if emit {
			vv = vc.nameVal(x.Name()+".v", vv)
			okv = vc.nameVal(x.Name()+".ok", okv)
			vc.addAssume(guard, vc.typeFacts(nil, at, vv.t, 0))
		}
		return Val{tuple: []Val{vv, okv}, typ: x.Type()}
	}
	if emit {
		vc.oblige("safe:assert", "", guard, ok, x.Pos(), vc.construct(x.Pos()))
	}
	r := Val{t: val, typ: at}
	if emit {
		r = vc.nameVal(x.Name(), r)
		vc.addAssume(guard, vc.typeFacts(nil, at, r.t, 0))
	}
	return r
}

func (vc *VC) implFun(it types.Type) string {
	key := vc.S.typeKey(it)
	name := sym("impl_" + key)
	vc.implPred[name] = it.Underlying().(*types.Interface)
	return name
}

// ---------------------------------------------------------------------------
// strings

func (vc *VC) strConcat(a, b Term) Term {
	// concatenation is one uninterpreted function with its defining axioms (length, contents of both
	// halves), so that a contract -- also under a quantifier -- and the code talk about the same term
	f := vc.declareFun("str.cat", []string{"Str", "Str"}, "Str")
	if !vc.declSet["str.cat.ax"] {
		vc.declSet["str.cat.ax"] = true
		vc.quantCtx = true
		vc.decls = append(vc.decls,
			"(assert (forall ((a Str) (b Str)) (! (and (= (st.len (str.cat a b)) (+ (st.len a) (st.len b))) (<= 0 (st.off (str.cat a b)))) :pattern ((str.cat a b)))))",
			"(assert (forall ((a Str) (b Str) (i Int)) (! (=> (and (<= 0 i) (< i (st.len a))) (= (select (st.base (str.cat a b)) (+ (st.off (str.cat a b)) i)) (select (st.base a) (+ (st.off a) i)))) :pattern ((select (st.base (str.cat a b)) (+ (st.off (str.cat a b)) i))))))",
			"(assert (forall ((a Str) (b Str) (i Int)) (! (=> (and (<= 0 i) (< i (st.len b))) (= (select (st.base (str.cat a b)) (+ (st.off (str.cat a b)) (st.len a) i)) (select (st.base b) (+ (st.off b) i)))) :pattern ((str.cat a b) (select (st.base b) (+ (st.off b) i))))))")
	}
	return app(f, a, b)
}

func (vc *VC) strEqFun() string {
	f := vc.declareFun("str.eq", []string{"Str", "Str"}, "Bool")
	if !vc.declSet["str.eq.ax"] {
		vc.declSet["str.eq.ax"] = true
		vc.quantCtx = true
		vc.decls = append(vc.decls,
			"(assert (forall ((a Str) (b Str)) (! (=> (str.eq a b) (= (st.len a) (st.len b))) :pattern ((str.eq a b)))))",
			"(assert (forall ((a Str)) (! (str.eq a a) :pattern ((str.eq a a)))))",
			"(assert (forall ((a Str) (b Str)) (! (= (str.eq a b) (str.eq b a)) :pattern ((str.eq a b)))))",
			"(assert (forall ((a Str) (b Str) (c Str)) (! (=> (and (str.eq a b) (str.eq b c)) (str.eq a c)) :pattern ((str.eq a b) (str.eq b c)))))",
			"(assert (forall ((a Str) (b Str) (i Int)) (! (=> (and (str.eq a b) (<= 0 i) (< i (st.len a))) (= (select (st.base a) (+ (st.off a) i)) (select (st.base b) (+ (st.off b) i)))) :pattern ((str.eq a b) (select (st.base a) (+ (st.off a) i))))))")
	}
	return f
}

func (vc *VC) strEqTerms(a, b Term) Term {
	// literal on either side: exact expansion
	for s, t := range vc.strConst {
		if t == a || t == b {
			o := a
			if t == a {
				o = b
			}
			if len(s) <= 64 {
				fs := []Term{eq(strLen(o), num(int64(len(s))))}
				for i := 0; i < len(s); i++ {
					fs = append(fs, eq(strAt(o, num(int64(i))), num(int64(s[i]))))
				}
				return and(fs...)
			}
		}
	}
	return app(vc.strEqFun(), a, b)
}

func (vc *VC) strEq(x, y ssa.Value, a, b Term) Term {
	return vc.strEqTerms(a, b)
}

// ---------------------------------------------------------------------------
// return / panic

func (vc *VC) ret(x *ssa.Return, st *State, reach Term) {
	var rv []Val
	for _, r := range x.Results {
		rv = append(rv, vc.val(r))
	}
	if vc.inline != nil {
		vc.inline.rets = append(vc.inline.rets, inlineRet{cond: reach, vals: rv, st: st.clone()})
		return
	}
	if vc.fi == nil {
		return
	}
	res := map[string]Val{}
	for i, n := range vc.fi.results {
		if i < len(rv) {
			res[n] = rv[i]
		}
	}
	for _, cl := range vc.fi.fc.Ensures {
		if cl.NameOnly {
			continue
		}
		vc.quantCtx = false
		t := vc.clauseTerm(vc.fi, cl, vc.params, res, st, vc.entry)
		vc.lastEv = nil
		vc.oblige("ensures", fmt.Sprintf("L%d@%s", cl.Line, vc.posStr(x.Pos())), reach, t, x.Pos(), cl.Text)
		if vc.lastEv != nil {
			vc.lastEv.RetVals = rv
		}
	}
	for _, ifi := range vc.P.ifaceContractsFor(vc.fi) {
		env := vc.ifaceEnv(ifi)
		ires := map[string]Val{}
		for i, n := range ifi.results {
			if i < len(rv) {
				ires[n] = rv[i]
			}
		}
		for _, cl := range ifi.fc.Ensures {
			vc.quantCtx = false
			t := vc.clauseTerm(ifi, cl, env, ires, st, vc.entry)
			vc.oblige("ensures", fmt.Sprintf("%s.L%d@%s", ifi.fc.Key, cl.Line, vc.posStr(x.Pos())), reach, t, x.Pos(), ifi.fc.Key+": "+cl.Text)
		}
	}
	vc.frameCheck(st, reach, x.Pos())
}

func (vc *VC) panicInstr(x *ssa.Panic, st *State, reach Term) {
	if vc.panicMode {
		vc.panicNow(x, st, reach)
		return
	}
	if vc.fi != nil && vc.fi.fc.MayPanic {
		return
	}
	cond := "false"
	if vc.fi != nil && len(vc.fi.fc.PanicsWhen) > 0 {
		var cs []Term
		for _, cl := range vc.fi.fc.PanicsWhen {
			cs = append(cs, vc.clauseTerm(vc.fi, cl, vc.params, nil, vc.entry, vc.entry))
		}
		cond = or(cs...)
	}
	vc.oblige("safe:panic", "", reach, cond, x.Pos(), vc.construct(x.Pos()))
}

// rangeIndexBound recognises the header shape go/ssa emits for `for i := range s` over
// slices, arrays and ints:  k = phi [-1, k1]; k1 = k + 1; if k1 < n goto body else done,
// with n defined outside the loop and no other back-edge value for k.
func (vc *VC) rangeIndexBound(li *LoopInfo, phi *ssa.Phi) (ssa.Value, bool) {
	h := li.header
	if len(h.Instrs) < 3 {
		return nil, false
	}
	iff, ok := h.Instrs[len(h.Instrs)-1].(*ssa.If)
	if !ok {
		return nil, false
	}
	cmp, ok := iff.Cond.(*ssa.BinOp)
	if !ok || cmp.Op != token.LSS || cmp.Block() != h {
		return nil, false
	}
	inc, ok := cmp.X.(*ssa.BinOp)
	if !ok || inc.Op != token.ADD || inc.X != phi || inc.Block() != h {
		return nil, false
	}
	if c, ok := inc.Y.(*ssa.Const); !ok || c.Value == nil || c.Int64() != 1 {
		return nil, false
	}
	if in, ok := cmp.Y.(ssa.Instruction); ok && li.blocks[in.Block()] {
		return nil, false
	}
	// the true branch must lead into the loop, and every edge of phi is -1 (entry) or inc (back edge)
	if !li.blocks[h.Succs[0]] {
		return nil, false
	}
	for i, p := range h.Preds {
		e := phi.Edges[i]
		if vc.isBackEdge(p, h) {
			if e != inc {
				return nil, false
			}
		} else if c, ok := e.(*ssa.Const); !ok || c.Value == nil || c.Int64() != -1 {
			return nil, false
		}
	}
	return cmp.Y, true
}

// loopFrame: `loop K: modifies X[*]`: memory of X's element type agrees with its pre-loop contents
// everywhere except inside the window of X (X evaluated when the loop is entered).
type loopFrame struct {
	heap, sort string
	sl         Term
	oldH       Term
	text       string
}

func (vc *VC) loopFrameTerm(lf *loopFrame, h Term) Term {
	if h == lf.oldH {
		return "true"
	}
	r, j := vc.freshName("r"), vc.freshName("j")
	other := "(forall ((" + r + " Int)) (! (=> (not (= " + r + " " + slRef(lf.sl) + ")) (= (select " + h + " " + r + ") (select " + lf.oldH + " " + r + "))) :pattern ((select " + h + " " + r + "))))"
	sel := "(select (select " + h + " " + slRef(lf.sl) + ") " + j + ")"
	outside := "(forall ((" + j + " Int)) (! (=> (or (< " + j + " " + slOff(lf.sl) + ") (>= " + j + " (+ " + slOff(lf.sl) + " " + slLen(lf.sl) + "))) (= " + sel + " (select (select " + lf.oldH + " " + slRef(lf.sl) + ") " + j + "))) :pattern (" + sel + ")))"
	return and(other, outside)
}

// elemIx: the position of element i of a slice that starts at off in its backing array. In a function
// whose contract says `indexfn` it is the uninterpreted function ix with the defining axiom
// ix(a, b) = a + b rather than the sum itself (opt-in: the byte-sequence views and the append/copy
// models state their facts over sums, and proofs that connect both styles got slower with ix):
// solvers normalise sums (off + (k + 1) becomes 1 + off + k), which hides the index from quantifier
// patterns of the form (select arr (+ off k)); an application of ix is matched as it stands.
func (vc *VC) elemIx(off, i Term) Term {
	if off == "0" {
		return i
	}
	if vc.fi == nil || !vc.fi.fc.IndexFn {
		return add(off, i)
	}
	f := vc.declareFun("ix", []string{"Int", "Int"}, "Int")
	if !vc.declSet["ix.ax"] {
		vc.declSet["ix.ax"] = true
		vc.quantCtx = true
		vc.decls = append(vc.decls, "(assert (forall ((a Int) (b Int)) (! (= (ix a b) (+ a b)) :pattern ((ix a b)))))")
	}
	return app(f, off, i)
}
