package main

import (
	"go/types"
	"sort"
	"strings"
)

// tableInstances: if typ is a declared table type of the package (see `table SPEC over T`),
// the names of the package-level variables that may hold an instance.
func (P *Program) tableInstances(pkgPath string, typ types.Type) []string {
	pc := P.pcs[pkgPath]
	pkg := P.pkgs[pkgPath]
	if pc == nil || pkg == nil {
		return nil
	}
	for _, t := range pc.Tables {
		tname := strings.TrimPrefix(t.Type, "*")
		tobj := pkg.Types.Scope().Lookup(tname)
		if tobj == nil {
			continue
		}
		target := types.Type(tobj.Type())
		if strings.HasPrefix(t.Type, "*") {
			target = types.NewPointer(target)
		}
		if !types.Identical(target, typ) {
			continue
		}
		var names []string
		for _, n := range pkg.Types.Scope().Names() {
			v, ok := pkg.Types.Scope().Lookup(n).(*types.Var)
			if !ok || strings.HasPrefix(n, "verif_") {
				continue
			}
			if types.Identical(v.Type(), target) {
				names = append(names, n)
			} else if it, ok := v.Type().Underlying().(*types.Interface); ok && types.Implements(target, it) {
				names = append(names, n)
			}
		}
		sort.Strings(names)
		return names
	}
	return nil
}
