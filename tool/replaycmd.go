package main

import (
	"encoding/json"
	"fmt"
	"os"
	"path/filepath"
	"strings"
)

// replayCmd: `gvc replay <file>` re-runs the test recorded in a replay file against the real code of
// the current tree (injected through `go test -overlay`, nothing is written into /repo) and compares
// what it prints with what the check observed. Exit 1: the recorded behaviour is reproduced; exit 0:
// it is not (the tree has changed) or the file records an obligation without a failing input.
func replayCmd(args []string) {
	if len(args) < 1 {
		fmt.Fprintln(os.Stderr, "usage: gvc replay <replay file>")
		os.Exit(2)
	}
	b, err := os.ReadFile(args[0])
	if err != nil {
		fmt.Fprintln(os.Stderr, "gvc:", err)
		os.Exit(2)
	}
	var rec struct {
		Property   string      `json:"property"`
		Obligation string      `json:"obligation"`
		At         string      `json:"at"`
		Construct  string      `json:"construct"`
		Status     string      `json:"status"`
		Note       string      `json:"note"`
		SolverOut  string      `json:"solver_output"`
		Replay     *ReplayInfo `json:"replay"`
	}
	if err := json.Unmarshal(b, &rec); err != nil {
		fmt.Fprintln(os.Stderr, "gvc: not a replay file:", err)
		os.Exit(2)
	}
	fmt.Printf("property   %s\nobligation %s\nat         %s\nconstruct  %s\nsolver     %s\n", rec.Property, rec.Obligation, rec.At, rec.Construct, rec.Status)
	if rec.Note != "" {
		fmt.Println("note       " + rec.Note)
	}
	if rec.Replay == nil || rec.Replay.TestSrc == "" {
		fmt.Println("no failing input was recorded for this obligation (no-failing-input-found); solver output:")
		fmt.Println(firstLines(rec.SolverOut, 60))
		os.Exit(0)
	}
	for _, in := range rec.Replay.Inputs {
		fmt.Println("input      " + in)
	}
	fmt.Println("recorded   " + rec.Replay.Verdict)
	file := rec.At
	if i := strings.LastIndex(file, ":"); i >= 0 {
		file = file[:i]
	}
	rel := filepath.ToSlash(filepath.Dir(file))
	pkgPath := modPath
	if rel != "." && rel != "" {
		pkgPath = modPath + "/" + rel
	}
	dir, err := os.MkdirTemp("", "gvc-replay-")
	if err != nil {
		fmt.Fprintln(os.Stderr, "gvc:", err)
		os.Exit(2)
	}
	defer os.RemoveAll(dir)
	out, cmd, _ := runTestIn(dir, pkgPath, map[string]string{"zz_verif_replay_test.go": rec.Replay.TestSrc}, "^TestVerifReplay$")
	got := firstLines(filterVerifLines(out), 40)
	fmt.Println("command    " + cmd)
	fmt.Println("output now:")
	fmt.Println(got)
	strip := func(s string) string { // drop timing lines ("ok  pkg 0.01s", "--- FAIL: ... (0.00s)")
		var ls []string
		for _, l := range strings.Split(strings.ReplaceAll(s, " | ", "\n"), "\n") {
			l = strings.TrimSpace(l)
			if strings.HasPrefix(l, "ok") || strings.HasPrefix(l, "FAIL") || strings.HasPrefix(l, "--- ") || strings.HasPrefix(l, "panic: test timed out") {
				continue
			}
			ls = append(ls, strings.TrimSpace(l))
		}
		return strings.Join(ls, "\n")
	}
	if strip(got) == strip(rec.Replay.Output) {
		fmt.Println("REPRODUCED: the real code behaves as recorded")
		os.RemoveAll(dir)
		os.Exit(1)
	}
	fmt.Println("NOT REPRODUCED: the real code no longer behaves as recorded; recorded output was:")
	fmt.Println(rec.Replay.Output)
}
