package main

import "go/ast"

// isRecursiveSpec: the spec function's body calls the function itself.
func isRecursiveSpec(d *ast.FuncDecl) bool {
	if d.Body == nil {
		return false
	}
	rec := false
	ast.Inspect(d.Body, func(n ast.Node) bool {
		if c, ok := n.(*ast.CallExpr); ok {
			if id, ok := c.Fun.(*ast.Ident); ok && id.Name == d.Name.Name {
				rec = true
			}
		}
		return true
	})
	return rec
}
