package main

import (
	"bytes"
	"fmt"
	"go/ast"
	"go/parser"
	"go/printer"
	"go/token"
	"go/types"
	"os"
	"path/filepath"
	"sort"
	"strings"

	"golang.org/x/tools/go/packages"
	"golang.org/x/tools/go/ssa"
	"golang.org/x/tools/go/ssa/ssautil"
)

const modPath = "github.com/dolthub/go-mysql-server"

var repoDir = "/repo"
var verifDir = "/verif"

type Program struct {
	fset     *token.FileSet
	pkgs     map[string]*packages.Package // by import path
	prog     *ssa.Program
	ssaPkgs  map[string]*ssa.Package
	pcs      map[string]*PkgContracts // by import path
	overlay  map[string][]byte
	funcs    map[string]*FuncInfo // by qualified key  pkgpath.Key
	byFn     map[*ssa.Function]*FuncInfo
	byObj    map[types.Object]*FuncInfo
	loadErrs []string
	markerOK bool
}

// FuncInfo: a function (or interface method) under contract, resolved.
type FuncInfo struct {
	fc      *FuncContract
	pc      *PkgContracts
	pkg     *packages.Package
	decl    *ast.FuncDecl   // nil for interface methods
	lit     *ast.FuncLit    // contracts on function literals (Name$k)
	fn      *ssa.Function   // nil for interface methods
	obj     *types.Func
	sig     *types.Signature
	params  []string // names incl. receiver first
	ptypes  []types.Type
	results []string
	rtypes  []types.Type
	loops   []ast.Stmt // loop k (1-based) = loops[k-1]
	// type-checked clauses
	checked map[*Clause]*CheckedExpr
	missing string // non-empty: target not found
}

type CheckedExpr struct {
	expr ast.Expr
	info *types.Info
	pkg  *types.Package
}

func (fi *FuncInfo) qname() string {
	return fi.pkg.Types.Name() + "." + fi.fc.Key
}

func findContractFiles() ([]string, error) {
	var out []string
	err := filepath.Walk(repoDir, func(p string, info os.FileInfo, err error) error {
		if err != nil {
			return nil
		}
		if info.IsDir() && (info.Name() == ".git" || info.Name() == "testdata" || info.Name() == "_example") {
			return filepath.SkipDir
		}
		if !info.IsDir() && info.Name() == "contracts_verif.go" {
			out = append(out, p)
		}
		return nil
	})
	sort.Strings(out)
	return out, err
}

const preludeSrc = `
type verifInt int

var verif_rangeidx int

func verif_old[T any](x T) T { return x }
func verif_implies(a, b bool) bool { return !a || b }
func verif_iff(a, b bool) bool { return a == b }
func verif_forall[F any](f F) bool { panic("verif: unbounded quantifier is not executable") }
func verif_exists[F any](f F) bool { panic("verif: unbounded quantifier is not executable") }
func verif_forallRange(lo, hi int, f func(int) bool) bool {
	for i := lo; i < hi; i++ {
		if !f(i) {
			return false
		}
	}
	return true
}
func verif_existsRange(lo, hi int, f func(int) bool) bool {
	for i := lo; i < hi; i++ {
		if f(i) {
			return true
		}
	}
	return false
}
func verif_Z[T ~int | ~int8 | ~int16 | ~int32 | ~int64 | ~uint | ~uint8 | ~uint16 | ~uint32 | ~uint64 | ~uintptr](x T) verifInt { return verifInt(x) }
func verif_Is[T any](v any) bool { _, ok := v.(T); return ok }
func verif_As[T any](v any) T { x, _ := v.(T); return x }
func verif_sameArray[T any](a, b []T) bool {
	return cap(a) > 0 && cap(b) > 0 && &a[:1][0] == &b[:1][0]
}
func verif_unfold[T any](x T) bool { return true }
func verif_same[T any](a, b T) bool { return any(a) == any(b) }
func verif_has[K comparable, V any](m map[K]V, k K) bool { _, ok := m[k]; return ok }
func verif_fresh[T any](x T) bool { panic("verif: spec only") }
func verif_rangeseen[K any](k K) bool { panic("verif: spec only") }
func verif_invoked[F any](f F) bool { panic("verif: spec only") }
func verif_tally(name string) int { panic("verif: spec only") }
func verif_streamPos[T any](it T) int { panic("verif: spec only") }
func verif_calls[T any](recv T, method string) int { panic("verif: spec only") }
func verif_entry[T any](x T) T { return x }
func verif_offset[T any](s []T) int { panic("verif: spec only") }
func verif_f64bits(x float64) verifInt { panic("verif: spec only") }
func verif_f64frombits(n verifInt) float64 { panic("verif: spec only") }

func verif_callPanicked[F any](f F) bool { return false }
func verif_callReturned[F any](f F) bool { return false }
func verif_callResult[R any](f func() R) R { var r R; return r }

type verifBytes struct{ verifBytesID int }

func verif_bytesOf(s []byte) verifBytes { panic("verif: spec only") }
func verif_bytesOfStr(s string) verifBytes { panic("verif: spec only") }
func verif_built[T any](b T) verifBytes { panic("verif: spec only") }
func verif_bsingle(c byte) verifBytes { panic("verif: spec only") }
func verif_bempty() verifBytes { panic("verif: spec only") }
func verif_written[T any](w T) verifBytes { panic("verif: spec only") }
func verif_utf8rune(s string) rune { panic("verif: spec only") }
func verif_utf8size(s string) int { panic("verif: spec only") }
func verif_xxh64(b verifBytes) uint64 { panic("verif: spec only") }
func verif_bcat(a, b verifBytes) verifBytes { panic("verif: spec only") }
func verif_bxor(a, b verifBytes) verifBytes { panic("verif: spec only") }
func verif_btake(a verifBytes, n int) verifBytes { panic("verif: spec only") }
func verif_blen(a verifBytes) int { panic("verif: spec only") }
func verif_bat(a verifBytes, i int) byte { panic("verif: spec only") }
func verif_sha1of(a verifBytes) verifBytes { panic("verif: spec only") }
func verif_unhex(a verifBytes) verifBytes { panic("verif: spec only") }
func verif_hexok(a verifBytes) bool { panic("verif: spec only") }
func verif_mark0(k int) {}
func verif_mark1[A any](k int, a A) {}
func verif_mark2[A, B any](k int, a A, b B) {}
func verif_mark3[A, B, C any](k int, a A, b B, c C) {}
func verif_mark4[A, B, C, D any](k int, a A, b B, c C, d D) {}
func verif_mark5[A, B, C, D, E any](k int, a A, b B, c C, d D, e E) {}
func verif_mark6[A, B, C, D, E, F any](k int, a A, b B, c C, d D, e E, f F) {}
func verif_mark7[A, B, C, D, E, F, G any](k int, a A, b B, c C, d D, e E, f F, g G) {}
func verif_mark8[A, B, C, D, E, F, G, H any](k int, a A, b B, c C, d D, e E, f F, g G, h H) {}
func verif_mark9[A, B, C, D, E, F, G, H, I any](k int, a A, b B, c C, d D, e E, f F, g G, h H, i I) {}
func verif_mark10[A, B, C, D, E, F, G, H, I, J any](k int, a A, b B, c C, d D, e E, f F, g G, h H, i I, j J) {}
func verif_mark11[A, B, C, D, E, F, G, H, I, J, K any](k int, a A, b B, c C, d D, e E, f F, g G, h H, i I, j J, kk K) {}
func verif_mark12[A, B, C, D, E, F, G, H, I, J, K, L any](k int, a A, b B, c C, d D, e E, f F, g G, h H, i I, j J, kk K, l L) {}
`

func relDirToImport(dir string) string {
	rel, _ := filepath.Rel(repoDir, dir)
	if rel == "." {
		return modPath
	}
	return modPath + "/" + filepath.ToSlash(rel)
}

// declMatches reports whether a FuncDecl is the target of a contract key.
func declMatches(d *ast.FuncDecl, fc *FuncContract) bool {
	if d.Name.Name != fc.Name || fc.IsIface {
		return false
	}
	if fc.Recv == "" {
		return d.Recv == nil
	}
	if d.Recv == nil || len(d.Recv.List) != 1 {
		return false
	}
	t := d.Recv.List[0].Type
	ptr := false
	if s, ok := t.(*ast.StarExpr); ok {
		ptr = true
		t = s.X
	}
	// generic receivers  T[V]
	if ix, ok := t.(*ast.IndexExpr); ok {
		t = ix.X
	}
	if ix, ok := t.(*ast.IndexListExpr); ok {
		t = ix.X
	}
	id, ok := t.(*ast.Ident)
	return ok && id.Name == fc.Recv && ptr == fc.RecvPtr
}

// litAsDecl views a function literal as a declaration (for loop and local-name collection).
func litAsDecl(l *ast.FuncLit) *ast.FuncDecl {
	return &ast.FuncDecl{Name: ast.NewIdent("lit"), Type: l.Type, Body: l.Body}
}

// topLits lists the function literals directly inside a declaration (not nested in another literal), in source order.
func topLits(d *ast.FuncDecl) []*ast.FuncLit {
	var lits []*ast.FuncLit
	if d.Body == nil {
		return nil
	}
	ast.Inspect(d.Body, func(c ast.Node) bool {
		if l, ok := c.(*ast.FuncLit); ok {
			lits = append(lits, l)
			return false
		}
		return true
	})
	return lits
}

func collectLoops(d *ast.FuncDecl) []ast.Stmt {
	var loops []ast.Stmt
	if d.Body == nil {
		return nil
	}
	ast.Inspect(d.Body, func(n ast.Node) bool {
		switch n.(type) {
		case *ast.ForStmt, *ast.RangeStmt:
			loops = append(loops, n.(ast.Stmt))
		}
		return true
	})
	return loops
}

func loopBody(s ast.Stmt) *ast.BlockStmt {
	switch l := s.(type) {
	case *ast.ForStmt:
		return l.Body
	case *ast.RangeStmt:
		return l.Body
	}
	return nil
}

// localNames returns all names declared inside the function (params, results, locals).
func localNames(d *ast.FuncDecl) map[string]bool {
	names := map[string]bool{}
	addFL := func(fl *ast.FieldList) {
		if fl == nil {
			return
		}
		for _, f := range fl.List {
			for _, n := range f.Names {
				names[n.Name] = true
			}
		}
	}
	addFL(d.Recv)
	addFL(d.Type.Params)
	addFL(d.Type.Results)
	ast.Inspect(d.Body, func(n ast.Node) bool {
		switch s := n.(type) {
		case *ast.AssignStmt:
			if s.Tok == token.DEFINE {
				for _, l := range s.Lhs {
					if id, ok := l.(*ast.Ident); ok {
						names[id.Name] = true
					}
				}
			}
		case *ast.RangeStmt:
			if s.Tok == token.DEFINE {
				if id, ok := s.Key.(*ast.Ident); ok {
					names[id.Name] = true
				}
				if id, ok := s.Value.(*ast.Ident); ok {
					names[id.Name] = true
				}
			}
		case *ast.ValueSpec:
			for _, n := range s.Names {
				names[n.Name] = true
			}
		case *ast.FuncLit:
			addFL(s.Type.Params)
			addFL(s.Type.Results)
		case *ast.TypeSwitchStmt:
			if a, ok := s.Assign.(*ast.AssignStmt); ok {
				for _, l := range a.Lhs {
					if id, ok := l.(*ast.Ident); ok {
						names[id.Name] = true
					}
				}
			}
		}
		return true
	})
	delete(names, "_")
	return names
}

// freeIdents lists identifiers of a (sugar-free) Go expression that are not selector
// fields, not bound by func literals inside it, in first-occurrence order.
func freeIdents(src string) ([]string, error) {
	e, err := parser.ParseExpr(src)
	if err != nil {
		return nil, fmt.Errorf("parse %q: %v", src, err)
	}
	var out []string
	seen := map[string]bool{}
	var walk func(n ast.Node, bound map[string]bool)
	walk = func(n ast.Node, bound map[string]bool) {
		switch x := n.(type) {
		case nil:
			return
		case *ast.Ident:
			if !bound[x.Name] && !seen[x.Name] {
				seen[x.Name] = true
				out = append(out, x.Name)
			}
		case *ast.SelectorExpr:
			walk(x.X, bound)
		case *ast.KeyValueExpr:
			walk(x.Value, bound)
		case *ast.FuncLit:
			b2 := map[string]bool{}
			for k := range bound {
				b2[k] = true
			}
			for _, f := range x.Type.Params.List {
				for _, nm := range f.Names {
					b2[nm.Name] = true
				}
			}
			for _, st := range x.Body.List {
				if r, ok := st.(*ast.ReturnStmt); ok {
					for _, re := range r.Results {
						walk(re, b2)
					}
				}
			}
		default:
			ast.Inspect(n, func(c ast.Node) bool {
				if c == n {
					return true
				}
				if c != nil {
					walk(c, bound)
				}
				return false
			})
		}
	}
	walk(e, map[string]bool{})
	return out, nil
}

// buildOverlay prepares: SRID stub, per-package prelude + spec funcs, marker-instrumented sources.
func buildOverlay(pcs []*PkgContracts) (map[string][]byte, error) {
	ov := map[string][]byte{}
	srid := filepath.Join(repoDir, "sql/types/spatial_reference_systems.go")
	if st, err := os.Stat(srid); err == nil && st.Size() == 0 {
		b, err := os.ReadFile(filepath.Join(verifDir, "stubs/spatial_reference_systems.go"))
		if err != nil {
			return nil, err
		}
		ov[srid] = b
	}
	for _, pc := range pcs {
		// prelude
		var sb strings.Builder
		fmt.Fprintf(&sb, "package %s\n\n", pc.PkgName)
		specText := strings.Join(pc.Specs, "\n")
		for _, im := range pc.Imports {
			// only imports the spec functions actually use (an unused import would make the package ill-typed)
			f := strings.Fields(im)
			path := strings.Trim(f[len(f)-1], "\"")
			name := path[strings.LastIndex(path, "/")+1:]
			if len(f) == 2 {
				name = f[0]
			}
			if strings.Contains(specText, name+".") || name == pc.SharedBytes {
				fmt.Fprintf(&sb, "import %s\n", im)
			}
		}
		if pc.SharedBytes != "" {
			// byte sequences of this package's contracts are the same Go type as those of the named package,
			// so spec functions over them can be shared across the two packages
			sb.WriteString(strings.Replace(preludeSrc, "type verifBytes struct{ verifBytesID int }", "type verifBytes = "+pc.SharedBytes+".VerifBytes", 1))
		} else {
			sb.WriteString(preludeSrc)
		}
		sb.WriteString("\ntype VerifBytes = verifBytes\n")
		sb.WriteString(atomicPrelude(pc))
		for _, s := range pc.Specs {
			sb.WriteString("\n" + s + "\n")
		}
		ov[filepath.Join(pc.Dir, "zz_verif_prelude.go")] = []byte(sb.String())
		// markers
		ents, err := os.ReadDir(pc.Dir)
		if err != nil {
			return nil, err
		}
		for _, e := range ents {
			n := e.Name()
			if e.IsDir() || !strings.HasSuffix(n, ".go") || strings.HasSuffix(n, "_test.go") || n == "contracts_verif.go" {
				continue
			}
			path := filepath.Join(pc.Dir, n)
			src, ok := ov[path]
			if !ok {
				src, err = os.ReadFile(path)
				if err != nil {
					return nil, err
				}
			}
			fs := token.NewFileSet()
			f, err := parser.ParseFile(fs, path, src, parser.SkipObjectResolution)
			if err != nil {
				continue // let the loader report it
			}
			type ins struct {
				off  int
				text string
			}
			var inss []ins
			for _, d := range f.Decls {
				fd, ok := d.(*ast.FuncDecl)
				if !ok || fd.Body == nil {
					continue
				}
				for _, fc := range pc.Funcs {
					if !declMatches(fd, fc) {
						continue
					}
					target := fd
					if fc.Anon > 0 {
						// loops of a function literal under contract (Name$k) are numbered within the literal
						lits := topLits(fd)
						if fc.Anon > len(lits) || len(fc.LoopInv)+len(fc.LoopDec)+len(fc.LoopHint)+len(fc.LoopMod) == 0 {
							continue
						}
						target = litAsDecl(lits[fc.Anon-1])
					}
					locals := localNames(target)
					for k, lp := range collectLoops(target) {
						var vars []string
						seen := map[string]bool{}
						var clauses []*Clause
						clauses = append(clauses, fc.LoopInv[k+1]...)
						if c := fc.LoopDec[k+1]; c != nil {
							clauses = append(clauses, c)
						}
						clauses = append(clauses, fc.LoopHint[k+1]...)
						clauses = append(clauses, fc.LoopMod[k+1]...)
						for _, cl := range clauses {
							ids, err := freeIdents(cl.Go)
							if err != nil {
								return nil, fmt.Errorf("%s:%d: %v", cl.File, cl.Line, err)
							}
							for _, id := range ids {
								if locals[id] && !seen[id] {
									seen[id] = true
									vars = append(vars, id)
								}
							}
						}
						if len(vars) > 12 {
							return nil, fmt.Errorf("%s: loop %d of %s: more than 12 variables in invariants", pc.File, k+1, fc.Key)
						}
						args := append([]string{fmt.Sprint(k + 1)}, vars...)
						text := fmt.Sprintf(" verif_mark%d(%s);", len(vars), strings.Join(args, ", "))
						inss = append(inss, ins{fs.Position(loopBody(lp).Lbrace).Offset + 1, text})
					}
				}
			}
			if len(inss) == 0 {
				continue
			}
			sort.Slice(inss, func(i, j int) bool { return inss[i].off > inss[j].off })
			out := append([]byte(nil), src...)
			for _, in := range inss {
				out = append(out[:in.off], append([]byte(in.text), out[in.off:]...)...)
			}
			ov[path] = out
		}
	}
	return ov, nil
}

// stripMarkers removes marker calls; used to check the instrumented copy equals the file on disk.
func stripMarkers(b []byte) []byte {
	for {
		i := bytes.Index(b, []byte(" verif_mark"))
		if i < 0 {
			return b
		}
		j := bytes.Index(b[i:], []byte(");"))
		if j < 0 {
			return b
		}
		b = append(append([]byte(nil), b[:i]...), b[i+j+2:]...)
	}
}

func loadProgram(pkgDirs []string) (*Program, error) {
	files, err := findContractFiles()
	if err != nil {
		return nil, err
	}
	P := &Program{pcs: map[string]*PkgContracts{}, pkgs: map[string]*packages.Package{}, ssaPkgs: map[string]*ssa.Package{},
		funcs: map[string]*FuncInfo{}, byFn: map[*ssa.Function]*FuncInfo{}, byObj: map[types.Object]*FuncInfo{}}
	var pcs []*PkgContracts
	want := map[string]bool{}
	for _, d := range pkgDirs {
		want[filepath.Clean(filepath.Join(repoDir, d))] = true
	}
	for _, f := range files {
		pc, err := parseContractFile(f)
		if err != nil {
			return nil, err
		}
		pc.RelDir, _ = filepath.Rel(repoDir, pc.Dir)
		pcs = append(pcs, pc)
		P.pcs[relDirToImport(pc.Dir)] = pc
	}
	ov, err := buildOverlay(pcs)
	if err != nil {
		return nil, err
	}
	// check: stripping markers gives back the files on disk
	P.markerOK = true
	for path, b := range ov {
		if strings.HasSuffix(path, "zz_verif_prelude.go") || strings.HasSuffix(path, "spatial_reference_systems.go") {
			continue
		}
		disk, err := os.ReadFile(path)
		if err != nil || !bytes.Equal(stripMarkers(b), disk) {
			P.markerOK = false
			return nil, fmt.Errorf("marker stripping does not reproduce %s", path)
		}
	}
	P.overlay = ov
	var patterns []string
	for d := range want {
		rel, _ := filepath.Rel(repoDir, d)
		patterns = append(patterns, "./"+filepath.ToSlash(rel))
	}
	sort.Strings(patterns)
	P.fset = token.NewFileSet()
	cfg := &packages.Config{
		Mode:    packages.LoadAllSyntax,
		Dir:     repoDir,
		Fset:    P.fset,
		Overlay: ov,
		BuildFlags: []string{"-tags=verif"},
		Env:     append(os.Environ(), "GOFLAGS=-mod=mod", "GOPROXY=off", "CGO_ENABLED=1"),
	}
	pkgs, err := packages.Load(cfg, patterns...)
	if err != nil {
		return nil, err
	}
	packages.Visit(pkgs, nil, func(p *packages.Package) {
		P.pkgs[p.PkgPath] = p
		if strings.HasPrefix(p.PkgPath, modPath) {
			for _, e := range p.Errors {
				if strings.Contains(e.Msg, "imported and not used") {
					continue
				}
				P.loadErrs = append(P.loadErrs, e.Error())
			}
		}
	})
	if len(P.loadErrs) > 0 {
		return P, fmt.Errorf("load errors:\n  %s", strings.Join(P.loadErrs, "\n  "))
	}
	prog, spkgs := ssautil.AllPackages(pkgs, ssa.InstantiateGenerics)
	_ = spkgs
	prog.Build()
	P.prog = prog
	for _, sp := range prog.AllPackages() {
		P.ssaPkgs[sp.Pkg.Path()] = sp
	}
	// resolve contracts
	for ip, pc := range P.pcs {
		pkg := P.pkgs[ip]
		if pkg == nil {
			continue // package not loaded in this run
		}
		for _, fc := range pc.Funcs {
			fi := &FuncInfo{fc: fc, pc: pc, pkg: pkg, checked: map[*Clause]*CheckedExpr{}}
			P.funcs[ip+"."+fc.Key] = fi
			if err := P.resolve(fi); err != nil {
				fi.missing = err.Error()
				continue
			}
			if fi.fn != nil {
				P.byFn[fi.fn] = fi
			}
			if fi.obj != nil {
				P.byObj[fi.obj] = fi
			}
		}
	}
	return P, nil
}

func (P *Program) resolve(fi *FuncInfo) error {
	fc := fi.fc
	scope := fi.pkg.Types.Scope()
	if fc.IsIface {
		o := scope.Lookup(fc.Recv)
		if o == nil {
			return fmt.Errorf("type %s not found", fc.Recv)
		}
		it, ok := o.Type().Underlying().(*types.Interface)
		if !ok {
			return fmt.Errorf("%s is not an interface (use (T).M for value receivers)", fc.Recv)
		}
		for i := 0; i < it.NumMethods(); i++ {
			if it.Method(i).Name() == fc.Name {
				fi.obj = it.Method(i)
			}
		}
		if fi.obj == nil {
			return fmt.Errorf("method %s not found in %s", fc.Name, fc.Recv)
		}
		fi.sig = fi.obj.Type().(*types.Signature)
		fi.params = []string{"self"}
		fi.ptypes = []types.Type{o.Type()}
	} else {
		for _, f := range fi.pkg.Syntax {
			for _, d := range f.Decls {
				if fd, ok := d.(*ast.FuncDecl); ok && declMatches(fd, fc) {
					fi.decl = fd
				}
			}
		}
		if fi.decl == nil {
			return fmt.Errorf("function %s not found", fc.Key)
		}
		obj, _ := fi.pkg.TypesInfo.Defs[fi.decl.Name].(*types.Func)
		if obj == nil {
			return fmt.Errorf("no object for %s", fc.Key)
		}
		fi.obj = obj
		fi.sig = obj.Type().(*types.Signature)
		fi.fn = P.prog.FuncValue(obj)
		if fi.fn == nil {
			return fmt.Errorf("no SSA for %s", fc.Key)
		}
		fi.loops = collectLoops(fi.decl)
		if fc.Anon > 0 {
			// the k-th function literal directly inside the declaration (not nested in another literal)
			var lits []*ast.FuncLit
			var walk func(n ast.Node)
			walk = func(n ast.Node) {
				ast.Inspect(n, func(c ast.Node) bool {
					if l, ok := c.(*ast.FuncLit); ok {
						lits = append(lits, l)
						return false
					}
					return true
				})
			}
			walk(fi.decl.Body)
			if fc.Anon > len(lits) || fc.Anon > len(fi.fn.AnonFuncs) {
				return fmt.Errorf("%s has no function literal %d", fc.Name, fc.Anon)
			}
			fi.lit = lits[fc.Anon-1]
			fi.fn = fi.fn.AnonFuncs[fc.Anon-1]
			if fi.fn.Pos() != fi.lit.Type.Func {
				return fmt.Errorf("%s: function literal %d does not line up with go/ssa's numbering", fc.Name, fc.Anon)
			}
			fi.sig = fi.fn.Signature
			fi.obj = nil
			fi.loops = collectLoops(litAsDecl(fi.lit))
		}
		if r := fi.sig.Recv(); r != nil {
			n := r.Name()
			if n == "" || n == "_" {
				n = "self"
			}
			fi.params = append(fi.params, n)
			fi.ptypes = append(fi.ptypes, r.Type())
		}
	}
	for i := 0; i < fi.sig.Params().Len(); i++ {
		p := fi.sig.Params().At(i)
		n := p.Name()
		if n == "" || n == "_" {
			n = fmt.Sprintf("arg%d", i)
		}
		fi.params = append(fi.params, n)
		fi.ptypes = append(fi.ptypes, p.Type())
	}
	rs := fi.sig.Results()
	named := rs.Len() > 0 && rs.At(0).Name() != ""
	nres := 0
	for i := 0; i < rs.Len(); i++ {
		r := rs.At(i)
		n := r.Name()
		if !named || n == "_" {
			switch {
			case i == rs.Len()-1 && types.Identical(r.Type(), types.Universe.Lookup("error").Type()):
				n = "err"
			case i == rs.Len()-1 && rs.Len() > 1 && isBool(r.Type()):
				n = "ok"
			default:
				if nres == 0 {
					n = "res"
				} else {
					n = fmt.Sprintf("res%d", nres)
				}
				nres++
			}
		}
		fi.results = append(fi.results, n)
		fi.rtypes = append(fi.rtypes, r.Type())
	}
	return nil
}

// typeSrc prints a type as Go source valid inside package pkg.
func typeSrc(t types.Type, pkg *types.Package) string {
	return types.TypeString(t, func(p *types.Package) string {
		if p == pkg {
			return ""
		}
		return p.Name()
	})
}

// typeSrcErased prints a type for use at package scope: the type parameters of a generic interface
// (which have no name there) are written as `any`.
func typeSrcErased(t types.Type, pkg *types.Package) string {
	switch x := types.Unalias(t).(type) {
	case *types.TypeParam:
		return "any"
	case *types.Named:
		n := x.TypeParams().Len()
		if n > 0 {
			base := typeSrc(x.Origin().Obj().Type(), pkg)
			if i := strings.Index(base, "["); i >= 0 {
				base = base[:i]
			}
			var as []string
			for i := 0; i < n; i++ {
				if x.TypeArgs().Len() == n {
					as = append(as, typeSrcErased(x.TypeArgs().At(i), pkg))
				} else {
					as = append(as, "any")
				}
			}
			return base + "[" + strings.Join(as, ", ") + "]"
		}
	case *types.Slice:
		return "[]" + typeSrcErased(x.Elem(), pkg)
	case *types.Pointer:
		return "*" + typeSrcErased(x.Elem(), pkg)
	case *types.Map:
		return "map[" + typeSrcErased(x.Key(), pkg) + "]" + typeSrcErased(x.Elem(), pkg)
	}
	return typeSrc(t, pkg)
}

// checkClause type-checks a contract clause in the scope of its function.
// kind: "pre" (params only), "post" (params+results), "loop" (at the marker of loop k)
func (P *Program) checkClause(fi *FuncInfo, cl *Clause) (*CheckedExpr, error) {
	if ce, ok := fi.checked[cl]; ok {
		return ce, nil
	}
	src := cl.Go
	pos := token.NoPos
	wrapParams := []string{}
	loopPos := func() error {
		if cl.Kind == "invariant" || cl.Kind == "decreases" || cl.Kind == "loopmod" {
			if cl.Loop < 1 || cl.Loop > len(fi.loops) {
				return fmt.Errorf("%s:%d: %s has no loop %d", cl.File, cl.Line, fi.fc.Key, cl.Loop)
			}
			b := loopBody(fi.loops[cl.Loop-1])
			if len(b.List) == 0 {
				return fmt.Errorf("loop %d has no marker", cl.Loop)
			}
			pos = b.List[0].End() + 1
		}
		return nil
	}
	if fi.lit != nil {
		pos = fi.lit.Body.Lbrace + 1
		if err := loopPos(); err != nil {
			return nil, err
		}
	} else if fi.decl != nil {
		pos = fi.decl.Body.Lbrace + 1
		if cl.Kind == "invariant" || cl.Kind == "decreases" || cl.Kind == "loopmod" {
			if cl.Loop < 1 || cl.Loop > len(fi.loops) {
				return nil, fmt.Errorf("%s:%d: %s has no loop %d", cl.File, cl.Line, fi.fc.Key, cl.Loop)
			}
			b := loopBody(fi.loops[cl.Loop-1])
			if len(b.List) == 0 {
				return nil, fmt.Errorf("loop %d has no marker", cl.Loop)
			}
			pos = b.List[0].End() + 1
		}
		// unnamed receiver
		if r := fi.sig.Recv(); r != nil && (r.Name() == "" || r.Name() == "_") {
			wrapParams = append(wrapParams, "self "+typeSrc(r.Type(), fi.pkg.Types))
		}
	} else {
		// interface method: evaluate at package scope of the file that declares the interface
		for i, n := range fi.params {
			wrapParams = append(wrapParams, n+" "+typeSrcErased(fi.ptypes[i], fi.pkg.Types))
		}
		o := fi.pkg.Types.Scope().Lookup(fi.fc.Recv)
		pos = o.Pos()
		// NOTE: package-scope position; file scope (imports) is that of the declaring file
	}
	if cl.Kind == "monitor" {
		wrapParams = append(wrapParams, "monSelf "+cl.MonType)
	}
	if cl.Kind == "cas" && len(fi.pc.AtomicCells) > 0 {
		wrapParams = append(wrapParams, "casOld "+fi.pc.AtomicCells[0].Type, "casNew "+fi.pc.AtomicCells[0].Type)
	}
	if cl.Kind == "ensures" || cl.Kind == "panics" {
		rs := fi.sig.Results()
		for i := 0; i < rs.Len(); i++ {
			if fi.decl != nil && rs.At(i).Name() == fi.results[i] {
				continue
			}
			wrapParams = append(wrapParams, fi.results[i]+" "+typeSrc(fi.rtypes[i], fi.pkg.Types))
		}
	}
	rt := "bool"
	if cl.Kind == "decreases" {
		rt = "int"
	}
	if cl.Kind == "loopmod" {
		rt = "any"
	}
	wrapped := len(wrapParams) > 0
	if wrapped {
		src = fmt.Sprintf("func(%s) %s { return %s }", strings.Join(wrapParams, ", "), rt, src)
	}
	e, err := parser.ParseExprFrom(P.fset, fmt.Sprintf("%s:%d", cl.File, cl.Line), src, 0)
	if err != nil {
		return nil, fmt.Errorf("%s:%d: %v (in %q)", cl.File, cl.Line, err, src)
	}
	info := &types.Info{Types: map[ast.Expr]types.TypeAndValue{}, Uses: map[*ast.Ident]types.Object{},
		Defs: map[*ast.Ident]types.Object{}, Selections: map[*ast.SelectorExpr]*types.Selection{},
		Instances: map[*ast.Ident]types.Instance{}}
	if err := types.CheckExpr(P.fset, fi.pkg.Types, pos, e, info); err != nil {
		return nil, fmt.Errorf("%s:%d: contract does not type-check: %v\n    %s", cl.File, cl.Line, err, cl.Go)
	}
	if wrapped {
		fl := e.(*ast.FuncLit)
		e = fl.Body.List[0].(*ast.ReturnStmt).Results[0]
	}
	ce := &CheckedExpr{expr: e, info: info, pkg: fi.pkg.Types}
	fi.checked[cl] = ce
	return ce, nil
}

func nodeStr(fset *token.FileSet, n ast.Node) string {
	var b bytes.Buffer
	printer.Fprint(&b, fset, n)
	return b.String()
}
