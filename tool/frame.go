package main

// Loop frame inference (checked syntactically on the SSA of the loop): if every write into a
// heap inside the loop goes through a slice/pointer whose provenance is an allocation made
// by this very function activation (make, new, append growth, string->[]byte conversion),
// then no object that existed at function entry is modified by the loop. The havocked heap
// at the loop head is then constrained to agree with the pre-loop heap on all references
// below the entry allocation counter.

import (
	"go/token"
	"go/types"

	"golang.org/x/tools/go/ssa"
)

func (vc *VC) freshOnly(v ssa.Value, seen map[ssa.Value]bool) bool {
	if seen[v] {
		return true
	}
	seen[v] = true
	switch x := v.(type) {
	case *ssa.MakeSlice, *ssa.Alloc, *ssa.MakeMap:
		return true
	case *ssa.Const:
		return x.Value == nil // nil slice/pointer: nothing can be written through it
	case *ssa.Slice:
		return vc.freshOnly(x.X, seen)
	case *ssa.IndexAddr:
		return vc.freshOnly(x.X, seen)
	case *ssa.FieldAddr:
		return vc.freshOnly(x.X, seen)
	case *ssa.ChangeType:
		return vc.freshOnly(x.X, seen)
	case *ssa.Convert:
		if _, ok := x.Type().Underlying().(*types.Slice); ok && isString(x.X.Type()) {
			return true
		}
		return false
	case *ssa.Phi:
		for _, e := range x.Edges {
			if !vc.freshOnly(e, seen) {
				return false
			}
		}
		return true
	case *ssa.Call:
		if bi, ok := x.Call.Value.(*ssa.Builtin); ok && bi.Name() == "append" {
			return vc.freshOnly(x.Call.Args[0], seen)
		}
	case *ssa.Extract:
		if l, ok := x.Tuple.(*ssa.Lookup); ok && x.Index == 0 {
			return vc.freshOnly(l, seen)
		}
	case *ssa.Lookup:
		// a value looked up in a map allocated by this activation is fresh if every value this
		// function ever puts into a map of that type is fresh (absent keys yield the zero value)
		mt, ok := x.X.Type().Underlying().(*types.Map)
		if !ok || !vc.freshOnly(x.X, seen) {
			return false
		}
		hn, _, _ := vc.mapHeapName(mt)
		for _, b := range vc.fn.Blocks {
			for _, in := range b.Instrs {
				for _, w := range vc.instrWrites(in) {
					if w.heap != hn {
						continue
					}
					mu, ok := in.(*ssa.MapUpdate)
					if !ok || !vc.freshOnly(mu.Value, seen) {
						return false
					}
				}
			}
		}
		return true
	case *ssa.UnOp:
		// a reference loaded from an object allocated by this activation is fresh if every value this
		// function ever stores into that heap is fresh (the object starts out zeroed)
		if x.Op != token.MUL {
			return false
		}
		base := vc.addrBase(x.X)
		if !vc.freshOnly(base, seen) {
			return false
		}
		mod := map[string]bool{}
		vc.addrHeap(x.X, mod)
		for _, b := range vc.fn.Blocks {
			for _, in := range b.Instrs {
				for _, w := range vc.instrWrites(in) {
					if !mod[w.heap] {
						continue
					}
					st, ok := in.(*ssa.Store)
					if !ok || !vc.freshOnly(st.Val, seen) {
						return false
					}
				}
			}
		}
		return true
	}
	return false
}

type writeSite struct {
	heap string
	base ssa.Value // nil: unknown target
}

func (vc *VC) addrBase(a ssa.Value) ssa.Value {
	for {
		switch x := a.(type) {
		case *ssa.FieldAddr:
			a = x.X
		case *ssa.IndexAddr:
			if _, ok := x.X.Type().Underlying().(*types.Slice); ok {
				return x.X
			}
			a = x.X
		default:
			return a
		}
	}
}

func (vc *VC) instrWrites(in ssa.Instruction) []writeSite {
	var out []writeSite
	mod := map[string]bool{}
	switch x := in.(type) {
	case *ssa.Store:
		vc.addrHeap(x.Addr, mod)
		for _, h := range sortedKeys(mod) {
			out = append(out, writeSite{h, vc.addrBase(x.Addr)})
		}
	case *ssa.Alloc, *ssa.MakeSlice, *ssa.MakeMap, *ssa.Convert, *ssa.MakeClosure, *ssa.MakeChan, *ssa.Range, *ssa.Next:
		// allocations initialise fresh references only
	case *ssa.MapUpdate:
		vc.instrModifies(in, mod)
		for _, h := range sortedKeys(mod) {
			out = append(out, writeSite{h, x.Map})
		}
	case ssa.CallInstruction:
		c := x.Common()
		if bi, ok := c.Value.(*ssa.Builtin); ok {
			switch bi.Name() {
			case "append", "copy":
				n, _ := vc.memName(c.Args[0].Type().Underlying().(*types.Slice).Elem())
				out = append(out, writeSite{n, c.Args[0]})
			case "delete", "clear":
				vc.callModifies(c, mod)
				for _, h := range sortedKeys(mod) {
					out = append(out, writeSite{h, c.Args[0]})
				}
			}
			return out
		}
		if f := c.StaticCallee(); f != nil {
			switch calleeName(f) {
			case "unicode/utf8.EncodeRune", "encoding/hex.Decode":
				n, _ := vc.memName(types.Typ[types.Uint8])
				return []writeSite{{n, c.Args[0]}}
			}
		}
		vc.callModifies(c, mod)
		for _, h := range sortedKeys(mod) {
			if h != "alloc" {
				out = append(out, writeSite{h, nil})
			}
		}
	}
	return out
}

// loopFrameFacts: heaps (among names) whose entry-allocated part is provably untouched by the loop.
func (vc *VC) loopFrameFacts(li *LoopInfo) map[string]bool {
	ok := map[string]bool{}
	bad := map[string]bool{}
	for b := range li.blocks {
		for _, in := range b.Instrs {
			for _, w := range vc.instrWrites(in) {
				if w.heap == "*" {
					return map[string]bool{}
				}
				if w.base == nil || !vc.freshOnly(w.base, map[ssa.Value]bool{}) {
					bad[w.heap] = true
				} else {
					ok[w.heap] = true
				}
			}
		}
	}
	for h := range bad {
		delete(ok, h)
	}
	return ok
}

// loopSingleBase: Mem_ heaps all of whose writes inside the loop are element stores (Store through
// IndexAddr, in bounds by the safety obligation) into one slice value defined outside the loop.
func (vc *VC) loopSingleBase(li *LoopInfo) map[string]ssa.Value {
	bases := map[string]ssa.Value{}
	bad := map[string]bool{}
	for b := range li.blocks {
		for _, in := range b.Instrs {
			for _, w := range vc.instrWrites(in) {
				if w.heap == "*" {
					return nil
				}
				st, isStore := in.(*ssa.Store)
				ok := false
				if isStore && w.base != nil {
					if ia, isIA := st.Addr.(*ssa.IndexAddr); isIA && ia.X == w.base {
						if _, isSl := w.base.Type().Underlying().(*types.Slice); isSl {
							if bi, isInstr := w.base.(ssa.Instruction); !isInstr || !li.blocks[bi.Block()] {
								ok = true
							}
						}
					}
				}
				if !ok || (bases[w.heap] != nil && bases[w.heap] != w.base) {
					bad[w.heap] = true
					continue
				}
				bases[w.heap] = w.base
			}
		}
	}
	for h := range bad {
		delete(bases, h)
	}
	return bases
}
