package main

import (
	"fmt"
	"go/types"
	"os"
	"path/filepath"
	"strings"
)

// shrinkModel re-asks the solver for a counterexample whose slice/string parameters are
// short (K elements), so that the replayed input is small and readable. Purely cosmetic: if
// no small model exists the original one is kept.
func shrinkModel(r *Result) {
	if r.Status != "sat" || r.vc == nil || r.vc.fn == nil {
		return
	}
	vc := r.vc
	dir, err := os.MkdirTemp("", "gvc-shrink-")
	if err != nil {
		return
	}
	defer os.RemoveAll(dir)
	for _, k := range []int{4, 8, 32} {
		var extra []string
		for _, p := range vc.fn.Params {
			v := vc.vals[p]
			if v.t == "" {
				continue
			}
			switch p.Type().Underlying().(type) {
			case *types.Slice:
				extra = append(extra, fmt.Sprintf("(assert (<= (s.cap %s) %d))", v.t, k), fmt.Sprintf("(assert (= (s.off %s) 0))", v.t))
			case *types.Basic:
				if isString(p.Type()) {
					extra = append(extra, fmt.Sprintf("(assert (<= (st.len %s) %d))", v.t, k), fmt.Sprintf("(assert (= (st.off %s) 0))", v.t))
				}
			}
		}
		if len(extra) == 0 {
			return
		}
		src := r.Script
		if r.Candidate {
			src = r.ScriptQF
		}
		script := strings.Replace(src, "(check-sat)\n(get-model)\n", strings.Join(extra, "\n")+"\n(check-sat)\n(get-model)\n", 1)
		file := filepath.Join(dir, fmt.Sprintf("s%d.smt2", k))
		os.WriteFile(file, []byte(script), 0644)
		st, out, _ := runSolver(solvers[0], file, 5)
		if st == "sat" {
			r.Model = out
			return
		}
	}
}
