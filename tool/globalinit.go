package main

import (
	"go/ast"
	"go/constant"
	"go/token"

	"golang.org/x/tools/go/ssa"
)

// globalInit returns the constant initialiser of a package-level variable, if it has one.
func (P *Program) globalInit(g *ssa.Global) (constant.Value, bool) {
	pkg := P.pkgs[g.Pkg.Pkg.Path()]
	if pkg == nil {
		return nil, false
	}
	for _, f := range pkg.Syntax {
		for _, d := range f.Decls {
			gd, ok := d.(*ast.GenDecl)
			if !ok || gd.Tok != token.VAR {
				continue
			}
			for _, sp := range gd.Specs {
				vs := sp.(*ast.ValueSpec)
				for i, n := range vs.Names {
					if n.Name != g.Name() || i >= len(vs.Values) || len(vs.Values) != len(vs.Names) {
						continue
					}
					if tv, ok := pkg.TypesInfo.Types[vs.Values[i]]; ok && tv.Value != nil {
						return tv.Value, true
					}
				}
			}
		}
	}
	return nil, false
}
