package main

import (
	"go/ast"
	"go/constant"
	"go/token"
	"go/types"

	"golang.org/x/tools/go/ssa"
)

// globalInit returns the constant initialiser of a package-level variable, if it has one.
func (P *Program) globalInit(g *ssa.Global) (constant.Value, bool) {
	pkg := P.pkgs[g.Pkg.Pkg.Path()]
	if pkg == nil {
		return nil, false
	}
	for _, f := range pkg.Syntax {
		for _, d := range f.Decls {
			gd, ok := d.(*ast.GenDecl)
			if !ok || gd.Tok != token.VAR {
				continue
			}
			for _, sp := range gd.Specs {
				vs := sp.(*ast.ValueSpec)
				for i, n := range vs.Names {
					if n.Name != g.Name() || i >= len(vs.Values) || len(vs.Values) != len(vs.Names) {
						continue
					}
					if tv, ok := pkg.TypesInfo.Types[vs.Values[i]]; ok && tv.Value != nil {
						return tv.Value, true
					}
				}
			}
		}
	}
	return nil, false
}

// globalInitDynType: for a package-level variable of interface type that is initialised by a
// composite literal (T{...} or &T{...}), the dynamic type of its initial value.
func (P *Program) globalInitDynType(g *ssa.Global) (types.Type, bool) {
	pkg := P.pkgs[g.Pkg.Pkg.Path()]
	if pkg == nil {
		return nil, false
	}
	for _, f := range pkg.Syntax {
		for _, d := range f.Decls {
			gd, ok := d.(*ast.GenDecl)
			if !ok || gd.Tok != token.VAR {
				continue
			}
			for _, sp := range gd.Specs {
				vs := sp.(*ast.ValueSpec)
				for i, n := range vs.Names {
					if n.Name != g.Name() || i >= len(vs.Values) || len(vs.Values) != len(vs.Names) {
						continue
					}
					e := ast.Unparen(vs.Values[i])
					if u, ok := e.(*ast.UnaryExpr); ok && u.Op == token.AND {
						if _, ok := ast.Unparen(u.X).(*ast.CompositeLit); !ok {
							return nil, false
						}
					} else if _, ok := e.(*ast.CompositeLit); !ok {
						return nil, false
					}
					t := pkg.TypesInfo.TypeOf(vs.Values[i])
					if t == nil || types.IsInterface(t) {
						return nil, false
					}
					return t, true
				}
			}
		}
	}
	return nil, false
}

// globalInitCall: a package-level variable initialised by a call  F(c1, ..., cn)  of a declared
// function with constant arguments; returns F, the argument expressions and the type info.
func (P *Program) globalInitCall(g *ssa.Global) (*types.Func, []ast.Expr, *types.Info, bool) {
	pkg := P.pkgs[g.Pkg.Pkg.Path()]
	if pkg == nil {
		return nil, nil, nil, false
	}
	for _, f := range pkg.Syntax {
		for _, d := range f.Decls {
			gd, ok := d.(*ast.GenDecl)
			if !ok || gd.Tok != token.VAR {
				continue
			}
			for _, sp := range gd.Specs {
				vs := sp.(*ast.ValueSpec)
				for i, n := range vs.Names {
					if n.Name != g.Name() || i >= len(vs.Values) || len(vs.Values) != len(vs.Names) {
						continue
					}
					call, ok := ast.Unparen(vs.Values[i]).(*ast.CallExpr)
					if !ok {
						return nil, nil, nil, false
					}
					var id *ast.Ident
					switch fx := call.Fun.(type) {
					case *ast.Ident:
						id = fx
					case *ast.SelectorExpr:
						id = fx.Sel
					}
					if id == nil {
						return nil, nil, nil, false
					}
					fo, ok := pkg.TypesInfo.Uses[id].(*types.Func)
					if !ok {
						return nil, nil, nil, false
					}
					for _, a := range call.Args {
						if tv, ok := pkg.TypesInfo.Types[a]; !ok || tv.Value == nil {
							return nil, nil, nil, false
						}
					}
					return fo, call.Args, pkg.TypesInfo, true
				}
			}
		}
	}
	return nil, nil, nil, false
}
