package main

// Monitors (DESIGN.md 0.8): a struct whose fields are protected by a mutex field.
//
//   //@ monitor T.mu invariant INV rely R      (package level)
//        INV, R: spec func(p *T) bool;  R is a two-state predicate (uses old(...)): what every
//        thread guarantees about the change of the protected state between taking and releasing
//        the lock, and therefore what a thread may rely on about changes made by the others.
//
// Semantics used by the generator, for every schedule of the other threads:
//   * acquiring the lock (Lock / RLock on p.mu): the protected state -- the T object and all memory
//     reachable by type from its fields -- is havocked (other threads ran), then INV(p) is assumed
//     and R(p) relative to the state in which this activation last saw it (its last release, or
//     function entry);
//   * releasing it (Unlock / RUnlock, also deferred): obligations monitor:invariant INV(p) and
//     monitor:guarantee R(p) relative to the state at the matching acquisition.
// R must be reflexive and transitive for this to be sound (interference composes); the contract
// file states both as lemmas, which are proved.

import (
	"fmt"
	"go/token"
	"go/types"

	"golang.org/x/tools/go/ssa"
)

type monitorDecl struct {
	Type  string // struct type name
	Field string // mutex field name
	Inv   string
	Rely  string
	// Assuming: a standing assumption about the protected state (e.g. counters below their machine
	// bound), assumed at every acquisition and never owed; listed as an assumption on every use
	Assuming string
	Line     int
}

type monitorStateUnused struct {
	lastSeen *State // protected state as this activation last saw it (entry, or last release)
	acquired *State // state right after the current acquisition
}

func (vc *VC) monitorOf(recv ssa.Value) (*monitorDecl, ssa.Value, *PkgContracts) {
	fa, ok := recv.(*ssa.FieldAddr)
	if !ok {
		return nil, nil, nil
	}
	pt, ok := fa.X.Type().Underlying().(*types.Pointer)
	if !ok {
		return nil, nil, nil
	}
	n, ok := types.Unalias(pt.Elem()).(*types.Named)
	if !ok || n.Obj().Pkg() == nil {
		return nil, nil, nil
	}
	pc := vc.P.pcs[n.Obj().Pkg().Path()]
	if pc == nil {
		return nil, nil, nil
	}
	st := n.Underlying().(*types.Struct)
	for _, md := range pc.Monitors {
		if md.Type == n.Obj().Name() && st.Field(fa.Field).Name() == md.Field {
			return md, fa.X, pc
		}
	}
	return nil, nil, nil
}

func (vc *VC) monitorClause(md *monitorDecl, pc *PkgContracts, spec string, self Val, st, old *State) Term {
	if vc.fi == nil {
		vc.fail("monitor used in a function without contract")
	}
	text := spec + "(monSelf)"
	cl := &Clause{Kind: "monitor", Text: text, Go: mustSugar(text), Line: md.Line, File: pc.File, MonType: "*" + md.Type}
	env := map[string]Val{}
	for k, p := range vc.params {
		env[k] = p
	}
	env["monSelf"] = self
	return vc.clauseTerm(vc.fi, cl, env, nil, st, old)
}

// monitorCall models Lock/RLock/Unlock/RUnlock on the mutex field of a declared monitor.
func (vc *VC) monitorCall(name string, c *ssa.CallCommon, st *State, reach Term, rt types.Type, pos token.Pos) (Val, bool) {
	acquire := name == "(*sync.RWMutex).Lock" || name == "(*sync.RWMutex).RLock" || name == "(*sync.Mutex).Lock"
	release := name == "(*sync.RWMutex).Unlock" || name == "(*sync.RWMutex).RUnlock" || name == "(*sync.Mutex).Unlock"
	if !acquire && !release || len(c.Args) == 0 {
		return Val{}, false
	}
	md, selfV, pc := vc.monitorOf(c.Args[0])
	if md == nil {
		return Val{}, false
	}
	self := vc.val(selfV)
	key := md.Type + "." + md.Field
	if acquire {
		// other threads ran: the protected state is arbitrary, subject to the invariant and the rely
		// (relative to the state this activation last saw: its last release on this path, or entry)
		seen := vc.monitorSnapshot(st, "$mon.seen:"+key+":", vc.entry)
		pt := selfV.Type().Underlying().(*types.Pointer)
		vc.havocByTypes([]types.Type{selfV.Type(), pt.Elem()}, false, st)
		vc.flushWF(st)
		vc.addAssume(reach, vc.monitorClause(md, pc, md.Inv, self, st, st))
		vc.addAssume(reach, vc.monitorClause(md, pc, md.Rely, self, st, seen))
		if md.Assuming != "" {
			vc.addAssume(reach, vc.monitorClause(md, pc, md.Assuming, self, st, st))
			vc.assume(fmt.Sprintf("monitor %s: standing assumption %s about the protected state (assumed at every acquisition, never owed)", key, md.Assuming))
		}
		vc.monitorRecord(st, "$mon.acq:"+key+":")
		vc.assume(fmt.Sprintf("monitor %s: on acquiring the lock the protected state is arbitrary up to %s and the rely %s (every thread owes both at release: obligations monitor:invariant, monitor:guarantee)", key, md.Inv, md.Rely))
		return Val{typ: rt}, true
	}
	acq := vc.monitorSnapshot(st, "$mon.acq:"+key+":", vc.entry)
	// one obligation per conjunct of the invariant / guarantee: each query stays small
	for i, c := range splitAnd(vc.monitorClause(md, pc, md.Inv, self, st, st)) {
		vc.oblige("monitor", "invariant", reach, c, pos, fmt.Sprintf("%s(%s) at release of %s, conjunct %d", md.Inv, md.Type, key, i+1))
	}
	for i, c := range splitAnd(vc.monitorClause(md, pc, md.Rely, self, st, acq)) {
		vc.oblige("monitor", "guarantee", reach, c, pos, fmt.Sprintf("%s(%s) between acquisition and release of %s, conjunct %d", md.Rely, md.Type, key, i+1))
	}
	vc.monitorRecord(st, "$mon.seen:"+key+":")
	return Val{typ: rt}, true
}

// monitorRecord copies every heap of the state into ghost heaps under the prefix (path-sensitive
// snapshot: ghost heaps are merged at joins like any other).
func (vc *VC) monitorRecord(st *State, prefix string) {
	for _, name := range sortedKeys(vc.heapSort) {
		sort := vc.heapSort[name]
		if len(name) > 0 && name[0] == '$' || hasPrefixAny(name, "iter@", "Local_") {
			continue
		}
		vc.heapSort[prefix+name] = sort
		st.heaps[prefix+name] = vc.heapGet(st, name, sort)
	}
}

// monitorSnapshot rebuilds the recorded state (heaps never recorded on this path come from def).
func (vc *VC) monitorSnapshot(st *State, prefix string, def *State) *State {
	out := def.clone()
	for name := range vc.heapSort {
		if t, ok := st.heaps[prefix+name]; ok {
			out.heaps[name] = t
		}
	}
	return out
}

func hasPrefixAny(s string, ps ...string) bool {
	for _, p := range ps {
		if len(s) >= len(p) && s[:len(p)] == p {
			return true
		}
	}
	return false
}
