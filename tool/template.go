package main

import "regexp"

// expandTemplates turns `ensures[T: a|b] P(T)` into one clause per listed type (each expansion
// is a separately named obligation).
func expandTemplates(cs []*Clause) []*Clause {
	var out []*Clause
	for _, c := range cs {
		if c.TmplVar == "" {
			out = append(out, c)
			continue
		}
		re := regexp.MustCompile(`\b` + regexp.QuoteMeta(c.TmplVar) + `\b`)
		for _, t := range c.TmplTypes {
			n := *c
			n.Text = re.ReplaceAllString(c.Text, t)
			n.TmplVar, n.TmplTypes = "", nil
			out = append(out, &n)
		}
	}
	return out
}
