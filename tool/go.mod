module gvc

go 1.26.2

require golang.org/x/tools v0.45.0

require (
	golang.org/x/mod v0.36.0 // indirect
	golang.org/x/sync v0.20.0 // indirect
)
