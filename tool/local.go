package main

import (
	"fmt"

	"golang.org/x/tools/go/ssa"
)

func (vc *VC) localName(x *ssa.Alloc) string {
	return fmt.Sprintf("Local_%s_%d", x.Name(), x.Block().Index)
}

// allocIsLocal: the alloc is only ever used as the base of field/index address computations that
// end in loads and stores (never sliced, passed, stored, captured or merged), so no callee can
// reach it.
func (vc *VC) allocIsLocal(x *ssa.Alloc) bool {
	var ok func(v ssa.Value, depth int) bool
	ok = func(v ssa.Value, depth int) bool {
		if depth > 8 {
			return false
		}
		refs := v.Referrers()
		if refs == nil {
			return false
		}
		for _, r := range *refs {
			switch u := r.(type) {
			case *ssa.UnOp:
				if u.X != v {
					return false
				}
			case *ssa.Store:
				if u.Addr != v || u.Val == v {
					return false
				}
			case *ssa.FieldAddr:
				if u.X != v || !ok(u, depth+1) {
					return false
				}
			case *ssa.IndexAddr:
				if u.X != v || !ok(u, depth+1) {
					return false
				}
			case *ssa.DebugRef:
			default:
				return false
			}
		}
		return true
	}
	return ok(x, 0)
}
