package main

import (
	"fmt"

	"golang.org/x/tools/go/ssa"
)

func (vc *VC) localName(x *ssa.Alloc) string {
	return fmt.Sprintf("Local_%s_%d", x.Name(), x.Block().Index)
}

// allocIsLocal: the alloc is only ever used as the base of field/index address computations that
// end in loads and stores (never sliced, passed, stored, captured or merged), so no callee can
// reach it.
func (vc *VC) allocIsLocal(x *ssa.Alloc) bool {
	var ok func(v ssa.Value, depth int) bool
	ok = func(v ssa.Value, depth int) bool {
		if depth > 8 {
			return false
		}
		refs := v.Referrers()
		if refs == nil {
			return false
		}
		for _, r := range *refs {
			switch u := r.(type) {
			case *ssa.UnOp:
				if u.X != v {
					return false
				}
			case *ssa.Store:
				if u.Addr != v || u.Val == v {
					return false
				}
			case *ssa.FieldAddr:
				if u.X != v || !ok(u, depth+1) {
					return false
				}
			case *ssa.IndexAddr:
				if u.X != v || !ok(u, depth+1) {
					return false
				}
			case *ssa.DebugRef:
			case *ssa.MakeClosure:
				// captured by a function literal that only reads it, and the literal is only handed to
				// calls as an argument (never invoked or deferred here): no callee can write the variable
				if v != ssa.Value(x) || !closureReadsOnly(u, v) {
					return false
				}
			default:
				return false
			}
		}
		return true
	}
	return ok(x, 0)
}

// closureReadsOnly: in the function literal of mc the variable bound to cell is only loaded, and the
// closure value itself is only passed as a call argument.
func closureReadsOnly(mc *ssa.MakeClosure, cell ssa.Value) bool {
	fn, ok := mc.Fn.(*ssa.Function)
	if !ok {
		return false
	}
	for i, b := range mc.Bindings {
		if b != cell {
			continue
		}
		if i >= len(fn.FreeVars) {
			return false
		}
		refs := fn.FreeVars[i].Referrers()
		if refs == nil {
			return false
		}
		for _, r := range *refs {
			switch u := r.(type) {
			case *ssa.UnOp:
			case *ssa.DebugRef:
			default:
				_ = u
				return false
			}
		}
	}
	if len(fn.AnonFuncs) > 0 {
		return false
	}
	refs := mc.Referrers()
	if refs == nil {
		return false
	}
	for _, r := range *refs {
		c, ok := r.(*ssa.Call)
		if !ok || c.Call.Value == ssa.Value(mc) {
			return false
		}
	}
	return true
}

// capturedReadOnly: a heap-allocated variable (it is captured by a closure) that still qualifies as a
// local because every capture only reads it (allocIsLocal has checked the captures).
func (vc *VC) capturedReadOnly(x *ssa.Alloc) bool {
	refs := x.Referrers()
	if refs == nil {
		return false
	}
	for _, r := range *refs {
		if _, ok := r.(*ssa.MakeClosure); ok {
			return true
		}
	}
	return false
}
