package main

// Abstract byte sequences ("Bytes") for contracts that talk about whole byte strings
// (digests, concatenation, xor), and the assumed contracts of the library functions that
// produce and consume them: crypto/sha1.New, hash.Hash.{Write,Sum,Reset,Size}, bytes.Equal,
// encoding/hex.DecodeString.
//
//   Bytes = mkbytes(barr: Array Int Int, blen: Int)      canonical: barr is 0 outside [0, blen)
//
// Equality of Bytes is datatype equality over extensional arrays, so two sequences are equal
// exactly when they have the same length and the same elements. The operations are
// uninterpreted functions with quantified defining axioms (patterns on element selection).

import (
	"fmt"
	"go/token"
	"go/types"

	"golang.org/x/tools/go/ssa"
)

const bytesSort = "Bytes"
const bytesEmpty = "(mkbytes ((as const (Array Int Int)) 0) 0)"

func (vc *VC) xor8Term(a, b Term) Term {
	return vc.bitUF("xor", 8, a, b, types.Typ[types.Uint8], false).t
}

// bytesOn declares the Bytes operations and their axioms (once per VC).
func (vc *VC) bytesOn() {
	if vc.declSet["bytes.of"] {
		return
	}
	vc.S.useBytes = true
	arr := "(Array Int Int)"
	vc.declareFun("bytes.of", []string{arr, "Int", "Int"}, bytesSort)
	vc.declareFun("bytes.cat", []string{bytesSort, bytesSort}, bytesSort)
	vc.declareFun("bytes.xor", []string{bytesSort, bytesSort}, bytesSort)
	vc.declareFun("bytes.take", []string{bytesSort, "Int"}, bytesSort)
	vc.declareFun("bytes.hash", []string{"Int", bytesSort}, bytesSort)
	vc.declareFun("bytes.hsize", []string{"Int"}, "Int")
	vc.declareFun("bytes.unhex", []string{bytesSort}, bytesSort)
	vc.declareFun("bytes.hexok", []string{bytesSort}, "Bool")
	saveND := vc.noDefine
	vc.noDefine = true
	defer func() { vc.noDefine = saveND }()
	sel := func(b, j Term) Term { return app("select", app("barr", b), j) }
	in := func(j, n Term) Term { return and(app("<=", "0", j), app("<", j, n)) }
	ax := []string{
		// view of a memory window
		"(forall ((a " + arr + ") (o Int) (n Int)) (! (= (blen (bytes.of a o n)) n) :pattern ((bytes.of a o n))))",
		"(forall ((a " + arr + ") (o Int) (n Int) (j Int)) (! (= " + sel("(bytes.of a o n)", "j") + " (ite " + in("j", "n") + " (select a (+ o j)) 0)) :pattern (" + sel("(bytes.of a o n)", "j") + ")))",
		// concatenation
		"(forall ((x Bytes) (y Bytes)) (! (= (blen (bytes.cat x y)) (+ (blen x) (blen y))) :pattern ((bytes.cat x y))))",
		"(forall ((x Bytes) (y Bytes) (j Int)) (! (= " + sel("(bytes.cat x y)", "j") + " (ite (< j (blen x)) " + sel("x", "j") + " " + sel("y", "(- j (blen x))") + ")) :pattern (" + sel("(bytes.cat x y)", "j") + ")))",
		// pointwise xor over the length of the first operand
		"(forall ((x Bytes) (y Bytes)) (! (= (blen (bytes.xor x y)) (blen x)) :pattern ((bytes.xor x y))))",
		"(forall ((x Bytes) (y Bytes) (j Int)) (! (= " + sel("(bytes.xor x y)", "j") + " (ite " + in("j", "(blen x)") + " " + vc.xor8Term(sel("x", "j"), sel("y", "j")) + " 0)) :pattern (" + sel("(bytes.xor x y)", "j") + ")))",
		// prefix
		"(forall ((x Bytes) (n Int)) (! (= (blen (bytes.take x n)) n) :pattern ((bytes.take x n))))",
		"(forall ((x Bytes) (n Int) (j Int)) (! (= " + sel("(bytes.take x n)", "j") + " (ite " + in("j", "n") + " " + sel("x", "j") + " 0)) :pattern (" + sel("(bytes.take x n)", "j") + ")))",
		// digests: fixed size per algorithm, bytes, canonical
		"(forall ((a Int) (x Bytes)) (! (= (blen (bytes.hash a x)) (bytes.hsize a)) :pattern ((bytes.hash a x))))",
		"(forall ((a Int) (x Bytes) (j Int)) (! (and (<= 0 " + sel("(bytes.hash a x)", "j") + " 255) (=> (not " + in("j", "(bytes.hsize a)") + ") (= " + sel("(bytes.hash a x)", "j") + " 0))) :pattern (" + sel("(bytes.hash a x)", "j") + ")))",
		"(= (bytes.hsize 1) 20)", "(forall ((a Int)) (! (<= 1 (bytes.hsize a)) :pattern ((bytes.hsize a))))",
		// hex decoding: two digits per byte
		"(forall ((x Bytes)) (! (and (=> (bytes.hexok x) (= (blen x) (* 2 (blen (bytes.unhex x))))) (<= 0 (blen (bytes.unhex x)))) :pattern ((bytes.unhex x))))",
		"(forall ((x Bytes) (j Int)) (! (and (<= 0 " + sel("(bytes.unhex x)", "j") + " 255) (=> (not " + in("j", "(blen (bytes.unhex x))") + ") (= " + sel("(bytes.unhex x)", "j") + " 0))) :pattern (" + sel("(bytes.unhex x)", "j") + ")))",
	}
	vc.quantCtx = true
	for _, a := range ax {
		vc.addAssume("true", a)
	}
	vc.assume("abstract byte sequences: bytes.{of,cat,xor,take} are defined by their element axioms; bytes.hash(alg, x) is an uninterpreted digest of fixed size (sha1: 20); bytes.unhex/hexok are uninterpreted hex decoding with len(x) == 2*len(unhex(x)) when valid")
}

func (vc *VC) bytesOfSlice(st *State, s Term) Term {
	vc.bytesOn()
	hn, sort := vc.memName(types.Typ[types.Uint8])
	return app("bytes.of", app("select", vc.heapGet(st, hn, sort), slRef(s)), slOff(s), slLen(s))
}

func (vc *VC) bytesOfString(s Term) Term {
	vc.bytesOn()
	return app("bytes.of", app("st.base", s), app("st.off", s), app("st.len", s))
}

const hashAccHeap = "HashAcc"
const hashAccSort = "(Array Int Bytes)"

func isHashHash(t types.Type) bool {
	n, ok := t.(*types.Named)
	return ok && n.Obj().Pkg() != nil && n.Obj().Pkg().Path() == "hash" && n.Obj().Name() == "Hash"
}

// freshByteSlice allocates a new []byte of the given length whose contents are the Bytes value b.
func (vc *VC) freshByteSlice(st *State, base string, n Term, b Term) Term {
	r := vc.freshRef(st, base+".ref")
	hn, sort := vc.memName(types.Typ[types.Uint8])
	h := vc.heapGet(st, hn, sort)
	arr := vc.freshConst(base+".arr", "(Array Int Int)")
	c := vc.freshConst(base+".cap", "Int")
	vc.quantCtx = true
	vc.addAssume("true", and(app("<=", n, c), app("<=", c, maxLenTerm()),
		eq(app("bytes.of", arr, "0", n), b),
		"(forall ((j Int)) (! (<= 0 (select "+arr+" j) 255) :pattern ((select "+arr+" j))))"))
	vc.heapSet(st, hn, sort, app("store", h, r, arr))
	return app("mkslice", r, "0", n, c)
}

func maxLenTerm() Term { return "281474976710656" }

// f64Bits declares the bit-cast pair math.Float64bits / math.Float64frombits: uninterpreted, mutually
// inverse (a bit cast loses nothing in either direction), bits in [0, 2^64).
func (vc *VC) f64Bits() string {
	if !vc.declSet["f64.bits"] {
		vc.S.useF64 = true
		vc.declareFun("f64.bits", []string{"F64"}, "Int")
		vc.declareFun("f64.frombits", []string{"Int"}, "F64")
		vc.quantCtx = true
		vc.addAssume("true", "(forall ((x F64)) (! (and (= (f64.frombits (f64.bits x)) x) (<= 0 (f64.bits x)) (< (f64.bits x) 18446744073709551616)) :pattern ((f64.bits x))))")
		vc.addAssume("true", "(forall ((n Int)) (! (=> (and (<= 0 n) (< n 18446744073709551616)) (= (f64.bits (f64.frombits n)) n)) :pattern ((f64.frombits n))))")
		vc.assume("assumed contract: math.Float64bits and math.Float64frombits are mutually inverse bit casts between float64 and [0, 2^64)")
	}
	return "f64.bits"
}

// bytesStdlib: assumed contracts of static library functions over byte sequences.
func (vc *VC) bytesStdlib(name string, args []Val, st *State, reach Term, rt types.Type, pos token.Pos) (Val, bool) {
	switch name {
	case "math.Float64bits":
		return Val{t: app(vc.f64Bits(), args[0].t), typ: rt}, true
	case "math.Float64frombits":
		vc.f64Bits()
		return Val{t: app("f64.frombits", args[0].t), typ: rt}, true
	case "crypto/sha1.New":
		vc.bytesOn()
		d := vc.freshConst("hash", "Dyn")
		ref := vc.freshRef(st, "hash.obj")
		vc.declareFun("hash.ref", []string{"Dyn"}, "Int")
		vc.declareFun("hash.alg", []string{"Dyn"}, "Int")
		vc.addAssume("true", and(not(app("(_ is dnil)", d)), eq(app("hash.ref", d), ref), eq(app("hash.alg", d), "1")))
		h := vc.heapGet(st, hashAccHeap, hashAccSort)
		vc.heapSet(st, hashAccHeap, hashAccSort, app("store", h, ref, bytesEmpty))
		vc.assume("assumed contract: sha1.New returns a new, empty hash.Hash computing the function SHA-1 (uninterpreted, 20 bytes)")
		return Val{t: d, typ: rt}, true
	case "bytes.Equal":
		vc.bytesOn()
		vc.assume("assumed contract: bytes.Equal(a, b) <==> a and b hold the same byte sequence")
		return Val{t: eq(vc.bytesOfSlice(st, args[0].t), vc.bytesOfSlice(st, args[1].t)), typ: rt}, true
	case "encoding/hex.DecodeString":
		vc.bytesOn()
		src := vc.bytesOfString(args[0].t)
		e := vc.freshConst("hexerr", "Dyn")
		n := vc.freshConst("hexn", "Int")
		out := vc.freshConst("hexout", bytesSort)
		vc.addAssume("true", and(app("<=", "0", n), app("<=", app("*", "2", n), strLen(args[0].t)), eq(app("blen", out), n),
			eq(app("(_ is dnil)", e), app("bytes.hexok", src)),
			implies(app("(_ is dnil)", e), eq(out, app("bytes.unhex", src)))))
		s := vc.freshByteSlice(st, "hexdec", n, out)
		vc.assume("assumed contract: hex.DecodeString(s) returns a new slice; err == nil <==> hexok(s), and then the slice holds unhex(s) with 2*len == len(s); on error at most len(s)/2 bytes")
		tup := rt.(*types.Tuple)
		return Val{tuple: []Val{{t: s, typ: tup.At(0).Type()}, {t: e, typ: tup.At(1).Type()}}, typ: rt}, true
	}
	return Val{}, false
}

// hashInvoke: assumed contracts of the hash.Hash interface (the accumulated input is ghost state).
func (vc *VC) hashInvoke(c *ssa.CallCommon, args []Val, st *State, reach Term, rt types.Type, pos token.Pos) (Val, bool) {
	if !c.IsInvoke() || !isHashHash(c.Value.Type()) {
		return Val{}, false
	}
	vc.bytesOn()
	vc.declareFun("hash.ref", []string{"Dyn"}, "Int")
	vc.declareFun("hash.alg", []string{"Dyn"}, "Int")
	d := args[0].t
	ref, alg := app("hash.ref", d), app("hash.alg", d)
	h := vc.heapGet(st, hashAccHeap, hashAccSort)
	acc := app("select", h, ref)
	vc.oblige("safe:nil", "invoke", reach, not(app("(_ is dnil)", d)), pos, vc.construct(pos))
	switch c.Method.Name() {
	case "Write":
		vc.heapSet(st, hashAccHeap, hashAccSort, app("store", h, ref, app("bytes.cat", acc, vc.bytesOfSlice(st, args[1].t))))
		vc.assume("assumed contract: hash.Hash.Write(p) appends p to the hashed input, returns (len(p), nil), touches nothing else")
		tup := rt.(*types.Tuple)
		return Val{tuple: []Val{{t: slLen(args[1].t), typ: tup.At(0).Type()}, {t: "dnil", typ: tup.At(1).Type()}}, typ: rt}, true
	case "Reset":
		vc.heapSet(st, hashAccHeap, hashAccSort, app("store", h, ref, bytesEmpty))
		vc.assume("assumed contract: hash.Hash.Reset() empties the hashed input")
		return Val{typ: rt}, true
	case "Size":
		return Val{t: app("bytes.hsize", alg), typ: rt}, true
	case "Sum":
		b := args[1].t
		content := app("bytes.cat", vc.bytesOfSlice(st, b), app("bytes.hash", alg, acc))
		n := vc.define("sumlen", "Int", app("+", slLen(b), app("bytes.hsize", alg)))
		// b without capacity (nil): the result is a new allocation. Otherwise append semantics: unknown aliasing.
		pre := *st
		pre.heaps = map[string]Term{}
		for k, v := range st.heaps {
			pre.heaps[k] = v
		}
		fresh := vc.freshByteSlice(st, "sum", n, content)
		hn, sort := vc.memName(types.Typ[types.Uint8])
		memFresh := vc.heapGet(st, hn, sort)
		allocFresh := vc.allocGet(st)
		// general case: arbitrary new memory and result, same contents
		vc.havocHeap(st, hn)
		vc.havocHeap(st, "alloc")
		memAny := vc.heapGet(st, hn, sort)
		res := vc.freshConst("sum", "Slice")
		vc.addAssume("true", vc.typeFacts(st, rt, res, 0))
		vc.addAssume("true", and(eq(slLen(res), n), eq(app("bytes.of", app("select", memAny, slRef(res)), slOff(res), n), content),
			implies(eq(slCap(b), "0"), and(eq(res, fresh), eq(memAny, memFresh), eq(vc.allocGet(st), allocFresh)))))
		vc.assume("assumed contract: hash.Hash.Sum(b) returns b followed by the digest of the hashed input (a new allocation when cap(b) == 0; otherwise memory of element type byte is havocked), leaves the hashed input unchanged")
		_ = pre
		return Val{t: res, typ: rt}, true
	}
	return Val{}, false
}

func init() { _ = fmt.Sprint }
