package main

// Dynamic dispatch at call sites (DESIGN.md 0.10). A function whose contract says
//     dispatch Iface.M [, Iface2.M2 ...]
// gets, at every call of such an interface method, one assumption per method (T).M under contract
// that implements it:
//     dynamic type of the receiver is T  &&  requires of (T).M hold here  ==>  ensures of (T).M hold for this call
// This is modular reasoning about a call whose callee is not known statically: (T).M is verified
// against its contract separately (or its contract is trusted and listed as such), and a call
// through the interface on a value whose dynamic type is T runs exactly that method. The frame comes
// from the interface method's own contract (or the call havocs what it can reach, as always).

import (
	"go/types"
	"sort"
	"strings"
)

// dispatchWanted: the caller's contract lists this interface method.
func (vc *VC) dispatchWanted(m *types.Func) bool {
	if vc.fi == nil || m == nil {
		return false
	}
	recv := m.Type().(*types.Signature).Recv()
	if recv == nil {
		return false
	}
	name := m.Name()
	tn := ""
	if n, ok := types.Unalias(recv.Type()).(*types.Named); ok {
		tn = n.Obj().Name()
	}
	for _, d := range vc.fi.fc.Dispatch {
		d = strings.TrimSpace(d)
		if d == tn+"."+name || d == name {
			return true
		}
		// qualified with a package name: sql.Type.Compare
		if i := strings.Index(d, "."); i >= 0 && d[i+1:] == tn+"."+name {
			return true
		}
	}
	return false
}

// implsOfMethod: methods under contract that implement interface method m.
func (P *Program) implsOfMethod(m *types.Func) []*FuncInfo {
	recv := m.Type().(*types.Signature).Recv()
	if recv == nil {
		return nil
	}
	it, ok := recv.Type().Underlying().(*types.Interface)
	if !ok {
		return nil
	}
	var keys []string
	for k := range P.funcs {
		keys = append(keys, k)
	}
	sort.Strings(keys)
	var out []*FuncInfo
	for _, k := range keys {
		g := P.funcs[k]
		if g.fn == nil || g.lit != nil || g.fc.Name != m.Name() || g.sig.Recv() == nil || g.missing != "" {
			continue
		}
		if types.Implements(g.sig.Recv().Type(), it) {
			out = append(out, g)
		}
	}
	return out
}

func (vc *VC) dispatchAssume(m *types.Func, args []Val, res Val, pre, st *State, reach Term) {
	if !vc.dispatchWanted(m) || len(args) == 0 {
		return
	}
	self := args[0]
	for _, g := range vc.P.implsOfMethod(m) {
		rt := g.sig.Recv().Type()
		bx := vc.S.boxOf(rt)
		isT := app("(_ is "+bx.ctor+")", self.t)
		env := map[string]Val{}
		if len(g.params) == 0 {
			continue
		}
		env[g.params[0]] = Val{t: app(bx.acc, self.t), typ: rt}
		for i := 1; i < len(g.params) && i < len(args); i++ {
			env[g.params[i]] = args[i]
		}
		renv := map[string]Val{}
		if res.tuple != nil {
			for i, n := range g.results {
				if i < len(res.tuple) {
					renv[n] = res.tuple[i]
				}
			}
		} else if len(g.results) == 1 {
			renv[g.results[0]] = res
		}
		var pres, posts []Term
		for _, cl := range g.fc.Requires {
			pres = append(pres, vc.clauseTerm(g, cl, env, nil, pre, pre))
		}
		for _, cl := range g.fc.Ensures {
			posts = append(posts, vc.clauseTerm(g, cl, env, renv, st, pre))
		}
		if len(posts) == 0 {
			continue
		}
		// (the implementation is not pulled into this check: it is discharged under the properties its
		// own contract names; here its contract is an assumption, listed as such)
		vc.addAssume(reach, implies(and(append([]Term{isT}, pres...)...), and(posts...)))
		vc.assume("dynamic dispatch: a call of " + m.FullName() + " on a receiver of dynamic type " + types.TypeString(rt, nil) + " satisfies the contract of " + g.qname() + " (discharged under " + strings.Join(g.fc.Props, ", ") + ")")
	}
}
