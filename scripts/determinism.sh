#!/bin/bash
# Generates every obligation script of the given package dirs twice and compares them (script generation must be
# deterministic: run-to-run differences in assertion order make solver times vary). usage: determinism.sh pkgdir...
cd "$(dirname "$0")/.."
rc=0
for p in "$@"; do
  A=$(mktemp -d /tmp/gvc-det-XXXX); B=$(mktemp -d /tmp/gvc-det-XXXX)
  GVC_DUMPDIR=$A GVC_NOSOLVE=1 bin/gvc-dev dev -t 1 $p >/dev/null 2>&1
  GVC_DUMPDIR=$B GVC_NOSOLVE=1 bin/gvc-dev dev -t 1 $p >/dev/null 2>&1
  n=$(ls $A | wc -l); d=$(diff -rq $A $B | wc -l)
  echo "$p: $n scripts, $d differ"; [ "$d" = 0 ] || { rc=1; diff -rq $A $B | head -5; }
  rm -rf $A $B
done
exit $rc
