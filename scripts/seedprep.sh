#!/bin/bash
# usage: seedprep.sh <property-id>  -- scratch worktree /tmp/wt_<id> of /repo HEAD plus the SRID stub overlay in /tmp/wt_<id>_tmp
set -e
P=$1; WT=/tmp/wt_$P; T=/tmp/wt_${P}_tmp
git -C /repo worktree remove --force $WT 2>/dev/null || true
rm -rf $WT $T; git -C /repo worktree prune
git -C /repo worktree add -q --detach $WT HEAD
# the sub-agent gets nothing from /verif: no contract files, no harnesses
(cd $WT && git ls-files '*_verif.go' | xargs git update-index --skip-worktree && git ls-files '*_verif.go' | xargs rm -f)
mkdir -p $T; cp /verif/stubs/spatial_reference_systems.go $T/srid_stub.go
echo "{\"Replace\":{\"$WT/sql/types/spatial_reference_systems.go\":\"$T/srid_stub.go\"}}" > $T/ov.json
echo "$WT ready"
