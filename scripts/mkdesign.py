#!/usr/bin/env python3
# Splices docs/section0.md into DESIGN.md between "## 0." and "## 1.".
import re
d = open('/verif/DESIGN.md').read()
s0 = open('/verif/docs/section0.md').read().rstrip() + '\n\n'
i = d.index('## 0. Implementation status')
j = d.index('## 1. The situation at the pin')
open('/verif/DESIGN.md', 'w').write(d[:i] + s0 + d[j:])
print('DESIGN.md section 0 updated')
