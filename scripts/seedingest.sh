#!/bin/bash
# usage: seedingest.sh <prop> <worktree> <n> <pkg_rel_dir> [expect]
# Confirms seed n of a sub-agent's worktree (seedconfirm.sh) and stores it as seeded/<prop>-<n>/.
set -u
cd "$(dirname "$0")/.."
P=$1; WT=$2; N=$3; PKG=$4; EXP=${5:-detected}
# SEEDDIR: where the sub-agent's seedN.* files are (default: the worktree root; must be elsewhere when the demo package is the root package)
SD=${SEEDDIR:-$WT}
out=$(scripts/seedconfirm.sh "$WT" "$SD/seed$N.diff" "$SD/seed${N}_demo_test.go" "$PKG" 2>&1)
echo "$out"
ok=1
echo "$out" | grep -q "existing tests with patch: PASS" || ok=0
echo "$out" | grep -q "demo with patch: FAIL (expected)" || ok=0
echo "$out" | grep -q "demo without patch: PASS (expected)" || ok=0
[ $ok = 1 ] || { echo "seed $P-$N NOT confirmed"; exit 1; }
D=seeded/$P-$N
mkdir -p $D
cp "$SD/seed$N.diff" $D/patch.diff
cp "$SD/seed${N}_demo_test.go" $D/demo_test.go
cp "$SD/seed$N.txt" $D/agent_notes.txt
python3 - "$P" "$N" "$PKG" "$WT" "$EXP" <<'EOF'
import json,sys
p,n,pkg,wt,exp=sys.argv[1:]
notes=open(f'/verif/seeded/{p}-{n}/agent_notes.txt').read().strip()
meta={"id":f"{p}-{n}","property":p,"summary":notes.split('\n\n')[0].replace('\n',' ')[:600],
 "demo_package":pkg,
 "confirmed":f"scripts/seedconfirm.sh {wt} seed{n}.diff seed{n}_demo_test.go {pkg} (SRID stub through a build overlay): existing tests pass with the patch, demo fails with it, demo passes without it",
 "source":"independent sub-agent given only the property text","expect":exp}
json.dump(meta,open(f'/verif/seeded/{p}-{n}/meta.json','w'),indent=1)
EOF
echo "stored $D"
