#!/usr/bin/env python3
# Prints the prompt given to an independent sub-agent that seeds a property-breaking change.
# usage: seedprompt.py <property-id> <n-changes> [extra sentence]
# Creates nothing; the caller creates the worktree (/tmp/wt_<id>) and the stub dir (/tmp/wt_<id>_tmp).
import json, sys
pid, n = sys.argv[1], int(sys.argv[2])
extra = sys.argv[3] if len(sys.argv) > 3 else ""
p = [json.loads(l) for l in open('/verif/properties.jsonl') if json.loads(l)['id'] == pid][0]
wt, tmp = f"/tmp/wt_{pid}", f"/tmp/wt_{pid}_tmp"
print(f"""You are helping test a verification framework by producing realistic *bug-introducing* changes to an open-source Go project (dolthub/go-mysql-server, a MySQL-compatible SQL engine). You have your own scratch git worktree of the repository at {wt} (work ONLY there and in {tmp}; never read or touch /repo or /verif).

The property your change must break:

{pid}: {p['title']}
"{p['statement']}"
Quantified over: {p['quantifier']['text']}
Anchored in: {', '.join(p['anchors']['files'])}
Mechanisms: {'; '.join(m['name']+' ('+m['where']+')' for m in p['anchors'].get('mechanism', []))}
{extra}

IMPORTANT environment facts:
- The sandbox is offline. Always `export GOFLAGS=-mod=mod GOPROXY=off` before any go command. Do NOT set GOSUMDB=off.
- In this checkout the file sql/types/spatial_reference_systems.go is EMPTY (0 bytes), so package sql/types and everything importing it do not compile on their own. To build and test those packages supply that file through a Go build overlay WITHOUT writing into the repository: {tmp}/srid_stub.go and {tmp}/ov.json already exist (ov.json replaces the empty file by the stub). Use e.g.
      cd {wt} && go test -overlay {tmp}/ov.json -vet=off -count=1 -run 'TestDemo' ./sql/expression/
  (the first build of a big package takes a minute or two). Packages that do not import sql/types (sql, sql/encodings, sql/in_mem_table, sql/sqlredact, errguard, internal/*) build without the overlay too.
- The "existing tests" gate for this task is the pinned suite:
      cd {wt} && go test -count=1 ./internal/strings/ ./internal/similartext/ ./sql/encodings/ ./sql/in_mem_table/ ./sql/sqlredact/ ./errguard/ ./internal/regex/ ./sql/planbuilder/dateparse/
  plus: every package you touch must still COMPILE with the overlay (go build -overlay {tmp}/ov.json ./<pkg>/), and the existing unit tests of the package you touch that pass on the unchanged code must still pass with your change (run them with the overlay before and after; tests that already fail on the unchanged code because of the stubbed SRID table do not count).

What I need from you: {n} different SMALL source changes (a few lines each, in non-test .go files; independent alternatives, each with its own demonstration) that
  1. pass the gates above,
  2. break the property as stated,
  3. need something SPECIFIC to manifest -- an unusual input or boundary value, a particular combination of types or operands, a multi-step sequence of operations, a fault at a particular point, a particular interleaving, or two cooperating sites that each look fine alone -- not something ordinary use would expose at once. Prefer the kind of slip a maintainer could plausibly make (off-by-one, a swapped operand, a dropped check in one branch, a changed order of checks, a short-circuit that skips a case).
  4. come with a demonstration: a Go test file (in the package of the changed code or a package that uses it; test names starting with TestDemo; file to be placed as zz_demo_test.go in that package directory) that FAILS with your change and PASSES on the unchanged code. Call the changed functions as directly as you can (unit level); do not depend on the whole engine unless you must.
Spread the changes over different functions/layers named in the anchors where you can.

Deliverables (write these files), for N = 1..{n}:
  - {wt}/seedN.diff : output of `git diff` for change N (only the non-test source change)
  - {wt}/seedN_demo_test.go : the demonstration test for change N
  - {wt}/seedN.txt : first line `pkg: <package dir of the demo, relative to the repo root>`; then 3-6 lines: what the change does, what specific input or sequence is needed to manifest, and the exact commands you ran with the observed results
After writing the files, restore the worktree source to the unchanged state (git checkout -- . ; remove the demo test from the package dir). Verify yourself, by running the commands, that (a) with the patch applied the gates pass and the demo fails; (b) without the patch the demo passes. Report in your final message the list of files written and a one-line summary of each change.""")
