#!/bin/bash
# Must-fail corpus: applies each seeded change / mutant to a scratch copy of /repo (outside /repo and
# /verif), runs the property's check against the copy and expects a VIOLATION (exit 1).
# usage: selftest.sh [id-prefix]
cd "$(dirname "$0")/.."
export GOFLAGS=-mod=mod GOPROXY=off
SCR=$(mktemp -d /tmp/gvc-selftest-XXXXXX)
trap 'rm -rf "$SCR"' EXIT
rsync -a --exclude .git /repo/ "$SCR/repo/"
killed=0; total=0; missed=""
for d in seeded/*/ selftest/mutants/*/; do
  [ -f "$d/patch.diff" ] || continue
  id=$(basename "$d")
  case "$id" in ${1:-}*) ;; *) continue;; esac
  prop=$(python3 -c "import json;print(json.load(open('$d/meta.json'))['property'])" 2>/dev/null) || continue
  expect=$(python3 -c "import json;print(json.load(open('$d/meta.json')).get('expect','detected'))")
  total=$((total+1))
  (cd "$SCR/repo" && patch -p1 -s < "$OLDPWD/$d/patch.diff") || { echo "$id: patch does not apply"; missed="$missed $id(noapply)"; continue; }
  out=$(GVC_REPO="$SCR/repo" GVC_EVIDENCE_DIR="$SCR/ev" bin/gvc check "$prop" quick 2>&1); rc=$?
  (cd "$SCR/repo" && patch -p1 -R -s < "$OLDPWD/$d/patch.diff")
  if [ $rc -eq 1 ] && echo "$out" | grep -q "^VIOLATION property=$prop"; then
    killed=$((killed+1)); echo "$id: detected ($(echo "$out" | grep -c '^VIOLATION') violation lines)"
  else
    echo "$id: NOT detected (rc=$rc, expected: $expect)"; missed="$missed $id"
  fi
done
echo "selftest: $killed/$total detected; missed:$missed"
