#!/bin/bash
# usage: seedconfirm.sh <worktree> <patch> <demo_test.go> <pkg_rel_dir>
# Confirms in the scratch worktree: with patch: existing tests pass and demo fails; without patch: demo passes.
# The SRID stub is supplied through a build overlay (the file is empty at the pin).
set -u
WT=$1; PATCH=$2; DEMO=$3; PKG=$4
export GOFLAGS=-mod=mod GOPROXY=off
cd "$WT" || exit 2
OV=$(mktemp /tmp/seedov-XXXXXX.json)
echo "{\"Replace\":{\"$WT/sql/types/spatial_reference_systems.go\":\"/verif/stubs/spatial_reference_systems.go\"}}" > $OV
git checkout -q -- . ; rm -f "$PKG/zz_demo_test.go"
TESTS="./internal/strings/ ./internal/similartext/ ./sql/encodings/ ./sql/in_mem_table/ ./sql/sqlredact/ ./errguard/ ./internal/regex/ ./sql/planbuilder/dateparse/"
git apply "$PATCH" || { echo "PATCH DOES NOT APPLY"; exit 2; }
go build -overlay $OV ./$PKG/ 2>&1 | tail -3
if go test -count=1 $TESTS > /tmp/seed_existing.log 2>&1; then echo "existing tests with patch: PASS"; else echo "existing tests with patch: FAIL"; tail -5 /tmp/seed_existing.log; fi
cp "$DEMO" "$PKG/zz_demo_test.go"
if go test -overlay $OV -vet=off -count=1 -run 'Demo|Seed' ./$PKG/ > /tmp/seed_demo1.log 2>&1; then echo "demo with patch: PASS (unexpected)"; else echo "demo with patch: FAIL (expected)"; fi
git checkout -q -- .
if go test -overlay $OV -vet=off -count=1 -run 'Demo|Seed' ./$PKG/ > /tmp/seed_demo2.log 2>&1; then echo "demo without patch: PASS (expected)"; else echo "demo without patch: FAIL (unexpected)"; tail -5 /tmp/seed_demo2.log; fi
rm -f "$PKG/zz_demo_test.go" $OV
