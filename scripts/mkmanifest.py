#!/usr/bin/env python3
# Regenerates /verif/MANIFEST.json from scripts/claims.json (claimed properties) and properties.jsonl.
import json, subprocess, os
os.chdir(os.path.dirname(os.path.abspath(__file__)) + "/..")
props = [json.loads(l) for l in open("properties.jsonl")]
claims = json.load(open("scripts/claims.json"))
hooks = subprocess.run(["git", "-C", "/repo", "log", "--format=%h", "--grep=^verif:"], capture_output=True, text=True).stdout.split()
m = {
 "version": 1,
 "setup_cmd": "./setup.sh",
 "hooks": {
  "guard": "verif",
  "enable": "contracts live in comment-only files <pkg>/contracts_verif.go with `//go:build verif`; gvc reads them as text and loads /repo through go/packages with an in-memory overlay (loop markers, spec-function prelude, SRID stub) and the build tag verif; besides the comment-only contract files, <pkg>/roundtrip_verif.go files (same build tag) hold small harness functions whose postconditions state round-trip laws over the contracts of the real functions; they are never called and are not compiled without the tag",
  "baseline_off_cmd": "for m in $(cat /w/out/gomods.txt); do MF=$(cd /repo/$m && . /w/out/goenv.sh && gomodflag); (cd /repo/$m && go test $MF -json -vet=off -count=1 -timeout 25m ./...); done",
  "source_commits": hooks,
  "add_only": True,
 },
 "engines": [{"name": "gvc", "path": "/verif/tool", "serves_properties": sorted(claims.keys()),
   "kind_free_text": "contract-based deductive verifier for a Go subset written for this task: contracts as //@ comments, go/ssa -> loop-cut weakest-precondition VCs -> SMT-LIB, discharged by z3 5.1.0 / cvc5 1.0.3 / z3 4.8.12; counterexamples replayed on the real code with go test -overlay"}],
 "checks": [],
 "notes": "See DESIGN.md. Every claimed check is a proof-level check of a stated slice of the property (level_note names the slice and what is not decided). known_findings.jsonl lists fixed and known defects.",
 "not_applicable": [],
}
for p in props:
    pid = p["id"]
    if pid in claims:
        c = claims[pid]
        m["checks"].append({
            "property_id": pid,
            "quick_cmd": f"./check {pid} quick",
            "thorough_cmd": f"./check {pid} thorough",
            "evidence_file": f"/verif/evidence/{pid}.json",
            "replay_cmd_template": "./check --replay {path}",
            "engine": "gvc",
            "level_claimed": {"category": "proof", "text": c["text"], "design_ref": c.get("design_ref", "DESIGN.md section 6 " + pid)},
            "level_note": c["note"],
            "technique": c.get("technique", "function contracts + weakest-precondition VCs over go/ssa, discharged by SMT (z3/cvc5)"),
        })
    else:
        na = json.load(open("scripts/not_applicable.json"))
        m["not_applicable"].append({"property_id": pid, "reason": na.get(pid, "within reach of the technique but not yet brought under contract; see DESIGN.md section 6")})
json.dump(m, open("MANIFEST.json", "w"), indent=1)
print("claimed:", sorted(claims.keys()))
