#!/bin/bash
# Re-runs every claimed check on the current tree (regenerates evidence/*.json). usage: runall.sh [quick|thorough]
cd "$(dirname "$0")/.."
tier=${1:-quick}
rc=0
for p in $(python3 -c "import json;print(' '.join(c['property_id'] for c in json.load(open('MANIFEST.json'))['checks']))"); do
  ./check $p $tier | tail -3 || rc=1
done
exit $rc
