package sqle

import (
	"testing"

	"github.com/dolthub/go-mysql-server/memory"
	"github.com/dolthub/go-mysql-server/sql"
)

func rows20(t *testing.T, e *Engine, ctx *sql.Context, q string) ([]sql.Row, error) {
	_, iter, _, err := e.Query(ctx, q)
	if err != nil {
		return nil, err
	}
	return sql.RowIterToRows(ctx, iter)
}

func TestDemoAlterAutoIncrementBelowMax(t *testing.T) {
	db := memory.NewDatabase("mydb")
	pro := memory.NewDBProvider(db)
	e := NewDefault(pro)
	ctx := sql.NewContext(t.Context(), sql.WithSession(memory.NewSession(sql.NewBaseSession(), pro)))
	ctx.SetCurrentDatabase("mydb")
	for _, q := range []string{
		"CREATE TABLE t (id int primary key auto_increment, v int)",
		"INSERT INTO t (v) VALUES (10),(20),(30)",
		"DELETE FROM t WHERE id = 3",
		"ALTER TABLE t AUTO_INCREMENT = 2",
	} {
		if _, err := rows20(t, e, ctx, q); err != nil {
			t.Fatal(q, err)
		}
	}
	_, err := rows20(t, e, ctx, "INSERT INTO t (v) VALUES (40)")
	rows, _ := rows20(t, e, ctx, "SELECT id, v FROM t ORDER BY id")
	t.Logf("insert err=%v rows=%v", err, rows)
	for _, r := range rows {
		if r[1] == int32(40) || r[1] == int64(40) {
			if id, ok := r[0].(int32); ok && id <= 3 {
				t.Errorf("generated id %d after ALTER TABLE ... AUTO_INCREMENT = 2: ids up to 3 had been generated before (3 is reused or 2 collides)", id)
			}
		}
	}
	if err != nil {
		t.Errorf("insert after ALTER AUTO_INCREMENT below the maximum fails: %v", err)
	}
}
