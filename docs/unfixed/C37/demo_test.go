package sqle

import (
	"context"
	"testing"

	"github.com/dolthub/go-mysql-server/sql"
	"github.com/dolthub/go-mysql-server/sql/variables"
)

func running(t *testing.T) int64 {
	_, v, ok := sql.StatusVariables.GetGlobal("Threads_running")
	if !ok {
		t.Fatal("no Threads_running")
	}
	switch x := v.(type) {
	case int64:
		return x
	case uint64:
		return int64(x)
	case int:
		return int64(x)
	}
	t.Fatalf("unexpected type %T", v)
	return 0
}

// A connection that goes away while its query is still running: the query is gone from the process
// list, but Threads_running keeps counting it for ever.
func TestDemoRemoveConnectionMidQuery(t *testing.T) {
	variables.InitStatusVariables()
	pl := NewProcessList()
	sess := sql.NewBaseSessionWithClientServer("0.0.0.0:3306", sql.Client{Address: "127.0.0.1:34567", User: "foo"}, 1)
	pl.AddConnection(1, "127.0.0.1:34567")
	pl.ConnectionReady(sess)
	before := running(t)
	ctx := sql.NewContext(context.Background(), sql.WithPid(7), sql.WithSession(sess))
	ctx, err := pl.BeginQuery(ctx, "SELECT SLEEP(100)")
	if err != nil {
		t.Fatal(err)
	}
	if got := running(t); got != before+1 {
		t.Fatalf("after BeginQuery: Threads_running = %d, want %d", got, before+1)
	}
	pl.RemoveConnection(1)
	pl.EndQuery(ctx)
	if len(pl.Processes()) != 0 {
		t.Fatalf("processes left: %v", pl.Processes())
	}
	if got := running(t); got != before {
		t.Errorf("no query is running, but Threads_running = %d (want %d)", got, before)
	}
}

// A BeginQuery that fails (pid already in use) must not count as a running query.
func TestDemoFailedBeginQuery(t *testing.T) {
	variables.InitStatusVariables()
	pl := NewProcessList()
	s1 := sql.NewBaseSessionWithClientServer("0.0.0.0:3306", sql.Client{Address: "127.0.0.1:1", User: "a"}, 1)
	s2 := sql.NewBaseSessionWithClientServer("0.0.0.0:3306", sql.Client{Address: "127.0.0.1:2", User: "b"}, 2)
	pl.AddConnection(1, "127.0.0.1:1")
	pl.ConnectionReady(s1)
	pl.AddConnection(2, "127.0.0.1:2")
	pl.ConnectionReady(s2)
	before := running(t)
	c1 := sql.NewContext(context.Background(), sql.WithPid(9), sql.WithSession(s1))
	c1, err := pl.BeginQuery(c1, "SELECT 1")
	if err != nil {
		t.Fatal(err)
	}
	c2 := sql.NewContext(context.Background(), sql.WithPid(9), sql.WithSession(s2))
	if _, err := pl.BeginQuery(c2, "SELECT 2"); err == nil {
		t.Fatal("expected pid-already-used error")
	}
	pl.EndQuery(c1)
	if got := running(t); got != before {
		t.Errorf("no query is running, but Threads_running = %d (want %d)", got, before)
	}
}
