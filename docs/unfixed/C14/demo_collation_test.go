package sqle

import (
	"testing"

	"github.com/dolthub/go-mysql-server/memory"
	"github.com/dolthub/go-mysql-server/sql"
)

func runQ(t *testing.T, e *Engine, ctx *sql.Context, q string) error {
	_, iter, _, err := e.Query(ctx, q)
	if err != nil {
		return err
	}
	_, err = sql.RowIterToRows(ctx, iter)
	return err
}

func TestDemoCIPk(t *testing.T) {
	db := memory.NewDatabase("mydb")
	pro := memory.NewDBProvider(db)
	e := NewDefault(pro)
	ctx := sql.NewContext(t.Context(), sql.WithSession(memory.NewSession(sql.NewBaseSession(), pro)))
	ctx.SetCurrentDatabase("mydb")
	for _, q := range []string{
		"CREATE TABLE t (s varchar(10) COLLATE utf8mb4_0900_ai_ci PRIMARY KEY)",
		"INSERT INTO t VALUES ('a')",
	} {
		if err := runQ(t, e, ctx, q); err != nil {
			t.Fatal(q, err)
		}
	}
	err := runQ(t, e, ctx, "INSERT INTO t VALUES ('A')")
	t.Logf("second insert (separate statement) err=%v", err)
	if err == nil {
		t.Errorf("'a' and 'A' both accepted as primary keys under utf8mb4_0900_ai_ci")
	}
	if err := runQ(t, e, ctx, "CREATE TABLE u (s varchar(10) COLLATE utf8mb4_0900_ai_ci PRIMARY KEY)"); err != nil {
		t.Fatal(err)
	}
	err = runQ(t, e, ctx, "INSERT INTO u VALUES ('b'),('B')")
	t.Logf("same statement err=%v", err)
	if err == nil {
		t.Errorf("'b' and 'B' both accepted in one statement")
	}
	if err := runQ(t, e, ctx, "CREATE TABLE w (id int primary key, s varchar(10) COLLATE utf8mb4_0900_ai_ci, unique key (s))"); err != nil {
		t.Fatal(err)
	}
	runQ(t, e, ctx, "INSERT INTO w VALUES (1,'c')")
	err = runQ(t, e, ctx, "INSERT INTO w VALUES (2,'C')")
	t.Logf("unique err=%v", err)
	if err == nil {
		t.Errorf("'c' and 'C' both accepted in unique index")
	}
}
