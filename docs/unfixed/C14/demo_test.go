package memory_test

import (
	"io"
	"testing"

	"github.com/dolthub/go-mysql-server/memory"
	"github.com/dolthub/go-mysql-server/sql"
	"github.com/dolthub/go-mysql-server/sql/types"
)

// Two rows with DIFFERENT composite primary keys, (1,23) and (12,3), inserted by one statement: both must be stored.
func TestDemoCompositeKeysDoNotCollide(t *testing.T) {
	db := memory.NewDatabase("db")
	pro := memory.NewDBProvider(db)
	ctx := sql.NewContext(nil, sql.WithSession(memory.NewSession(sql.NewBaseSession(), pro)))
	sch := sql.NewPrimaryKeySchema(sql.Schema{
		{Name: "a", Type: types.Int64, Source: "t", PrimaryKey: true},
		{Name: "b", Type: types.Int64, Source: "t", PrimaryKey: true},
	})
	tbl := memory.NewTable(ctx, db, "t", sch, nil)
	ed := tbl.Inserter(ctx)
	ed.StatementBegin(ctx)
	if err := ed.Insert(ctx, sql.Row{int64(1), int64(23)}); err != nil {
		t.Fatal(err)
	}
	if err := ed.Insert(ctx, sql.Row{int64(12), int64(3)}); err != nil {
		t.Fatalf("second row with a different key rejected: %v", err)
	}
	if err := ed.StatementComplete(ctx); err != nil {
		t.Fatal(err)
	}
	if err := ed.Close(ctx); err != nil {
		t.Fatal(err)
	}
	n := 0
	parts, err := tbl.Partitions(ctx)
	if err != nil {
		t.Fatal(err)
	}
	for {
		p, err := parts.Next(ctx)
		if err == io.EOF {
			break
		}
		if err != nil {
			t.Fatal(err)
		}
		rows, err := tbl.PartitionRows(ctx, p)
		if err != nil {
			t.Fatal(err)
		}
		for {
			_, err := rows.Next(ctx)
			if err == io.EOF {
				break
			}
			if err != nil {
				t.Fatal(err)
			}
			n++
		}
	}
	if n != 2 {
		t.Errorf("stored %d rows, want 2", n)
	}
}
