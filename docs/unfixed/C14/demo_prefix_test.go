package memory

import (
	"strings"
	"testing"

	"github.com/dolthub/go-mysql-server/sql"
	"github.com/dolthub/go-mysql-server/sql/types"
)

func TestDemoPrefixLongValues(t *testing.T) {
	sch := sql.Schema{{Name: "s", Type: types.LongText}}
	a := "a" + strings.Repeat("x", 65535)
	b := "b" + strings.Repeat("y", 65535)
	if columnsMatch([]int{0}, []uint16{3}, sql.Row{a}, sql.Row{b}, sch) {
		t.Errorf("values of length 65536 starting with 'a' and 'b' match on a prefix of 3")
	}
}
