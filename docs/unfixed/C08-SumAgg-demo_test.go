package aggregation

import (
	"fmt"
	"testing"

	"github.com/dolthub/go-mysql-server/sql"
	"github.com/dolthub/go-mysql-server/sql/expression"
	"github.com/dolthub/go-mysql-server/sql/types"
)

func TestZZAvg(t *testing.T) {
	ctx := sql.NewEmptyContext()
	a := NewAvgAgg(expression.NewGetField(0, types.Int64, "x", true))
	buf := sql.WindowBuffer{sql.Row{nil}, sql.Row{nil}, sql.Row{int64(4)}}
	if err := a.StartPartition(ctx, sql.WindowInterval{Start: 0, End: 3}, buf); err != nil {
		t.Fatal(err)
	}
	for _, iv := range []sql.WindowInterval{{0, 0}, {0, 1}, {0, 2}, {0, 3}, {2, 3}} {
		v, err := a.Compute(ctx, iv, buf)
		fmt.Printf("ZZ frame %v -> %v (%T) err=%v\n", iv, v, v, err)
	}
	s := NewSumAgg(expression.NewGetField(0, types.Int64, "x", true))
	s.StartPartition(ctx, sql.WindowInterval{Start: 0, End: 3}, buf)
	for _, iv := range []sql.WindowInterval{{0, 0}, {0, 1}, {0, 2}, {0, 3}} {
		v, err := s.Compute(ctx, iv, buf)
		fmt.Printf("ZZ sum frame %v -> %v (%T) err=%v\n", iv, v, v, err)
	}
}
