package memory

import (
	"errors"
	"testing"

	"github.com/dolthub/go-mysql-server/sql"
	"github.com/dolthub/go-mysql-server/sql/types"
)

// failingAccumulator stands for a table whose pending edits cannot be applied (a storage-level failure).
type failingAccumulator struct{ tableEditAccumulator }

var errApply = errors.New("edits could not be applied")

func (failingAccumulator) ApplyEdits(ctx *sql.Context, table *Table) error { return errApply }
func (failingAccumulator) Clear()                                            {}

func TestDemoStatementCompleteReportsApplyFailure(t *testing.T) {
	db := NewDatabase("mydb")
	pro := NewDBProvider(db)
	ctx := sql.NewContext(t.Context(), sql.WithSession(NewSession(sql.NewBaseSession(), pro)))
	tbl := NewTable(ctx, db, "t", sql.NewPrimaryKeySchema(sql.Schema{{Name: "id", Type: types.Int64, Source: "t", PrimaryKey: true}}), nil)
	ed := &tableEditor{editedTable: tbl, initialTable: tbl.copy(), ea: failingAccumulator{}}
	if err := ed.StatementComplete(ctx); err == nil {
		t.Errorf("StatementComplete reports success although the edits could not be applied (%v)", errApply)
	}
}
