package plan

import (
	"context"
	"io"
	"testing"

	"github.com/dolthub/go-mysql-server/sql"
)

type demoInner struct{ n int }

func (d *demoInner) Next(ctx *sql.Context) (sql.Row, error) {
	if d.n >= 3 {
		return nil, io.EOF
	}
	d.n++
	return sql.Row{int64(d.n)}, nil
}
func (d *demoInner) Close(ctx *sql.Context) error { return nil }

type demoEditor struct{ began, completed, discarded int }

func (e *demoEditor) StatementBegin(ctx *sql.Context)             { e.began++ }
func (e *demoEditor) DiscardChanges(ctx *sql.Context, _ error) error { e.discarded++; return nil }
func (e *demoEditor) StatementComplete(ctx *sql.Context) error     { e.completed++; return nil }

// A data-modifying statement that is cancelled half way (KILL QUERY, client timeout) fails: Next returns the
// context's error. Its changes must then be discarded, not completed.
func TestDemoCancelledStatementIsDiscarded(t *testing.T) {
	goCtx, cancel := context.WithCancel(context.Background())
	ctx := sql.NewContext(goCtx)
	ed := &demoEditor{}
	it := NewTableEditorIter(&demoInner{}, ed)
	if _, err := it.Next(ctx); err != nil {
		t.Fatalf("first row: %v", err)
	}
	cancel() // the statement is cancelled while it runs
	_, err := it.Next(ctx)
	if err == nil || err == io.EOF {
		t.Fatalf("expected the cancellation error, got %v", err)
	}
	_ = it.Close(ctx)
	if ed.completed != 0 || ed.discarded != 1 {
		t.Errorf("failed statement: StatementComplete called %d times, DiscardChanges %d times; want 0 and 1", ed.completed, ed.discarded)
	}
}
