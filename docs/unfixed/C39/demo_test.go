package mysql_db

import "testing"

// A dynamic privilege granted under any spelling is held under its lower-cased name (AddGlobalDynamic and
// HasDynamic lower-case it); revoking it under the spelling it was granted with must remove it.
func TestDemoRevokeDynamicPrivilegeAnyCase(t *testing.T) {
	ps := NewPrivilegeSet()
	ps.AddGlobalDynamic(false, "CLONE_ADMIN")
	if !ps.HasDynamic("CLONE_ADMIN") {
		t.Fatal("granted privilege not held")
	}
	ps.RemoveGlobalDynamic("CLONE_ADMIN")
	if ps.HasDynamic("CLONE_ADMIN") {
		t.Errorf("CLONE_ADMIN is still held after it was revoked")
	}
}
