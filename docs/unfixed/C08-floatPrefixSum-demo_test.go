package aggregation

import (
	"errors"
	"fmt"
	"testing"

	"github.com/dolthub/go-mysql-server/sql"
	"github.com/dolthub/go-mysql-server/sql/expression"
	"github.com/dolthub/go-mysql-server/sql/types"
)

// failingExpr evaluates to the first column, but fails on rows whose second column is true.
type failingExpr struct{ sql.Expression }

func (f failingExpr) Eval(ctx *sql.Context, row sql.Row) (interface{}, error) {
	if row[1] == true {
		return nil, errors.New("evaluation failed")
	}
	return row[0], nil
}

func TestZZPrefix(t *testing.T) {
	ctx := sql.NewEmptyContext()
	e := failingExpr{expression.NewGetField(0, types.Int64, "x", true)}
	buf := sql.WindowBuffer{sql.Row{int64(5), false}, sql.Row{int64(100), true}, sql.Row{int64(7), false}}
	sums, nulls, err := floatPrefixSum(ctx, sql.WindowInterval{Start: 0, End: 3}, buf, e)
	fmt.Printf("ZZ sums=%v nulls=%v err=%v\n", sums, nulls, err)
	s := NewSumAgg(e)
	fmt.Printf("ZZ StartPartition err=%v\n", s.StartPartition(ctx, sql.WindowInterval{Start: 0, End: 3}, buf))
	v, err := s.Compute(ctx, sql.WindowInterval{Start: 2, End: 3}, buf)
	fmt.Printf("ZZ SUM over the frame that holds only the row with value 7 -> %v err=%v\n", v, err)
}
