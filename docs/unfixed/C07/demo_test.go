package sqle

import (
	"testing"

	"github.com/dolthub/go-mysql-server/memory"
	"github.com/dolthub/go-mysql-server/sql"
)

func rowsOf(t *testing.T, e *Engine, ctx *sql.Context, q string) []sql.Row {
	_, iter, _, err := e.Query(ctx, q)
	if err != nil {
		t.Fatal(q, err)
	}
	rows, err := sql.RowIterToRows(ctx, iter)
	if err != nil {
		t.Fatal(q, err)
	}
	return rows
}

func TestDemoDistinctUnderCollation(t *testing.T) {
	db := memory.NewDatabase("mydb")
	pro := memory.NewDBProvider(db)
	e := NewDefault(pro)
	ctx := sql.NewContext(t.Context(), sql.WithSession(memory.NewSession(sql.NewBaseSession(), pro)))
	ctx.SetCurrentDatabase("mydb")
	rowsOf(t, e, ctx, "CREATE TABLE t (id int primary key, s varchar(10) COLLATE utf8mb4_0900_ai_ci)")
	rowsOf(t, e, ctx, "INSERT INTO t VALUES (1,'a'),(2,'A'),(3,'b')")
	eq := rowsOf(t, e, ctx, "SELECT count(*) FROM t WHERE s = 'a'")
	t.Logf("s = 'a' matches %v rows", eq[0][0])
	for _, q := range []string{
		"SELECT DISTINCT s FROM t",
		"SELECT s, count(*) FROM t GROUP BY s",
		"SELECT count(DISTINCT s) FROM t",
		"SELECT s FROM t UNION SELECT s FROM t",
	} {
		rows := rowsOf(t, e, ctx, q)
		t.Logf("%s -> %v", q, rows)
	}
	if n := len(rowsOf(t, e, ctx, "SELECT DISTINCT s FROM t")); n != 2 {
		t.Errorf("DISTINCT returned %d rows, want 2 ('a' and 'A' are equal under utf8mb4_0900_ai_ci)", n)
	}
	if n := len(rowsOf(t, e, ctx, "SELECT s, count(*) FROM t GROUP BY s")); n != 2 {
		t.Errorf("GROUP BY returned %d groups, want 2", n)
	}
	if v := rowsOf(t, e, ctx, "SELECT count(DISTINCT s) FROM t")[0][0]; v != int64(2) {
		t.Errorf("count(DISTINCT s) = %v, want 2", v)
	}
	if n := len(rowsOf(t, e, ctx, "SELECT s FROM t UNION SELECT s FROM t")); n != 2 {
		t.Errorf("UNION returned %d rows, want 2", n)
	}
}
