// Overlay stub for /repo/sql/types/spatial_reference_systems.go, which is an EMPTY
// file at the pin (see /root/.vp/EMPTIED_FILES.txt). Supplied only through
// go/packages Overlay and `go test -overlay`; never written into /repo.
package types

type SpatialRef struct {
	Name          string
	ID            uint32
	Organization  string
	OrgCoordsysId uint32
	Definition    string
	Description   any
}

var SupportedSRIDs = map[uint32]SpatialRef{}
